package main

import (
	"go/ast"
	"go/constant"
	"go/token"
	"go/types"
	"strings"

	"golang.org/x/tools/go/packages"
)

func init() {
	register("C05", runC05,
		"Decides the verdict-derivation clause for all inputs and flag settings: (R1) the Severity constants are ordered Information<Warning<Bug<Fatal, ParseSeverity and Severity.String are inverse tables, --fail-on defaults to \"bug\" in lint and ci; (R2) in actionLint and actionCI every `return nil` reachable after the reports were counted is dominated by the false edge of the verdict test, the verdict variable is written only under `sev >= failOn` where sev ranges over the keys of Summary.CountBySeverity() and failOn is ParseSeverity(--fail-on), and the true edge returns an error; (R3) nothing derived from --min-severity, --show-duplicates or duplicate folding flows into the verdict; (R4) CountBySeverity counts every element of the unfiltered report list on every path; (R5) Problem.Severity and Summary.reports have no writers outside their owners.",
		"early exits before linting completes (flag parsing, I/O, git errors); that every problem produced by a check is delivered to the summary (C11/C20 rules).")
}

// stringValue evaluates a constant string or a package-level string variable
// that is initialised with a constant and never assigned again.
func stringValue(p *Prog, pkg *packages.Package, e ast.Expr) (string, bool) {
	if s, ok := constString(pkg.TypesInfo, e); ok {
		return s, true
	}
	v, ok := objOf(pkg.TypesInfo, e).(*types.Var)
	if !ok || v.Parent() != v.Pkg().Scope() {
		return "", false
	}
	dpkg := p.ByPath[v.Pkg().Path()]
	if dpkg == nil {
		return "", false
	}
	val, found := "", false
	assigned := false
	for _, f := range dpkg.Syntax {
		ast.Inspect(f, func(n ast.Node) bool {
			switch x := n.(type) {
			case *ast.ValueSpec:
				for i, id := range x.Names {
					if dpkg.TypesInfo.Defs[id] == v && i < len(x.Values) {
						if s, ok := constString(dpkg.TypesInfo, x.Values[i]); ok {
							val, found = s, true
						}
					}
				}
			case *ast.AssignStmt:
				for _, l := range x.Lhs {
					if objOf(dpkg.TypesInfo, l) == v {
						assigned = true
					}
				}
			case *ast.UnaryExpr:
				if x.Op == token.AND && objOf(dpkg.TypesInfo, x.X) == v {
					assigned = true
				}
			}
			return true
		})
	}
	return val, found && !assigned
}

func runC05(c *Ctx) {
	defer c05SeverityPerBlock(c, "C05-R5")
	p := c.P
	c.Rule("C05-R1", "severity order, ParseSeverity/String inverse tables, --fail-on default", 11)
	c.Rule("C05-R2", "verdict derives from `sev >= failOn` over CountBySeverity() keys; nil return dominated by the verdict test", 12)
	c.Rule("C05-R3", "display options do not flow into the verdict", 4)
	c.Rule("C05-R4", "CountBySeverity counts every report of the unfiltered list", 4)
	c.Rule("C05-R5", "who may write Problem.Severity / Summary.reports; report identity includes severity", 5)
	defer c05SeverityZeroIsAValue(c, "C05-R1")
	defer c05ReporterIO(c)
	defer c05ReportsNotEditedInPlace(c)

	chk := p.Pkg("internal/checks")
	if chk == nil {
		c.Undecided("C05-R1", "anchor:internal/checks", token.NoPos, "package not found")
		return
	}
	// ---- R1 ----
	order := []string{"Information", "Warning", "Bug", "Fatal"}
	vals := map[string]int64{}
	for i, n := range order {
		k, _ := p.LookupObj("internal/checks", n).(*types.Const)
		if k == nil || typeQName(k.Type()) != "internal/checks.Severity" {
			c.Undecided("C05-R1", "anchor:checks."+n, token.NoPos, "severity constant not found")
			continue
		}
		v, _ := constantInt(k)
		vals[n] = v
		if i > 0 {
			c.Check(vals[order[i-1]] < v, "C05-R1", "order:"+order[i-1]+"<"+n, k.Pos(), "ordered", "severity constants are no longer ordered "+strings.Join(order, "<"))
		}
	}
	parseTab := map[string]string{} // word -> const name
	if ps := c.MustFunc("C05-R1", "internal/checks.ParseSeverity"); ps != nil {
		sws := findSwitches(ps.Decl.Body, func(s *ast.SwitchStmt) bool { return s.Tag != nil })
		if len(sws) != 1 {
			c.Undecided("C05-R1", "ParseSeverity:switch", ps.Decl.Pos(), "expected one tagged switch")
		} else {
			cases, deflt := switchCases(sws[0])
			for _, cs := range cases {
				word, ok := constString(chk.TypesInfo, cs.Expr)
				rets := returnsIn(cs.Clause.Body)
				if !ok || len(rets) != 1 || len(rets[0].Results) != 2 {
					c.Undecided("C05-R1", "ParseSeverity:case:"+exprStr(cs.Expr), cs.Clause.Pos(), "case is not `return Const, nil`")
					continue
				}
				k := constObj(chk.TypesInfo, rets[0].Results[0])
				if k == nil || exprStr(rets[0].Results[1]) != "nil" {
					c.Undecided("C05-R1", "ParseSeverity:case:"+word, cs.Clause.Pos(), "case is not `return Const, nil`")
					continue
				}
				parseTab[word] = k.Name()
			}
			okDef := false
			if deflt != nil {
				rets := returnsIn(deflt.Body)
				okDef = len(rets) == 1 && len(rets[0].Results) == 2 && exprStr(rets[0].Results[1]) != "nil"
			} else {
				// fallthrough after the switch must return an error
				rets := returnsIn(ps.Decl.Body.List)
				last := rets[len(rets)-1]
				okDef = len(last.Results) == 2 && exprStr(last.Results[1]) != "nil" && last.Pos() > sws[0].End()
			}
			c.Check(okDef, "C05-R1", "ParseSeverity:unknown word is an error", ps.Decl.Pos(), "unknown severities are rejected", "an unknown severity word is accepted")
		}
	}
	strTab := map[string]string{} // const name -> printed
	if ss := c.MustFunc("C05-R1", "internal/checks.Severity.String"); ss != nil {
		for _, sw := range findSwitches(ss.Decl.Body, func(s *ast.SwitchStmt) bool { return s.Tag != nil }) {
			cases, _ := switchCases(sw)
			for _, cs := range cases {
				k := constObj(chk.TypesInfo, cs.Expr)
				rets := returnsIn(cs.Clause.Body)
				if k == nil || len(rets) != 1 || len(rets[0].Results) != 1 {
					continue
				}
				if s, ok := constString(chk.TypesInfo, rets[0].Results[0]); ok {
					strTab[k.Name()] = s
				}
			}
		}
	}
	if ss := c.P.Func("internal/checks.Severity.String"); ss != nil && ss.Decl.Recv != nil && len(ss.Decl.Recv.List) == 1 && len(ss.Decl.Recv.List[0].Names) == 1 {
		// the table may be written any way (switch, array, map): decided by evaluating the method for
		// each of the four constants
		recv := chk.TypesInfo.Defs[ss.Decl.Recv.List[0].Names[0]]
		for _, n := range order {
			k, isConst := chk.Types.Scope().Lookup(n).(*types.Const)
			if !isConst || recv == nil {
				continue
			}
			iv, exact := constant.Int64Val(constant.ToInt(k.Val()))
			if !exact {
				continue
			}
			ev := &miniEval{info: chk.TypesInfo, prog: c.P, env: map[types.Object]mval{recv: {k: mvInt, i: iv}}}
			ctl := ev.block(ss.Decl.Body.List)
			if ev.undec == "" && ctl.kind == 'r' && ctl.ret.k == mvStr {
				strTab[n] = ctl.ret.s
			}
		}
	}
	wantWord := map[string]string{"Information": "info", "Warning": "warning", "Bug": "bug", "Fatal": "fatal"}
	for _, n := range order {
		w := wantWord[n]
		c.Check(parseTab[w] == n, "C05-R1", "ParseSeverity:"+w+"->"+n, chk.Syntax[0].Pos(), "maps to "+n, "ParseSeverity("+strq(w)+") yields "+parseTab[w]+", documented meaning is "+n)
		c.Check(strTab[n] == n, "C05-R1", "String:"+n, chk.Syntax[0].Pos(), "prints as "+n, "Severity("+n+").String() is "+strq(strTab[n]))
	}
	for w, n := range parseTab {
		if wantWord[n] != w {
			c.Bad("C05-R1", "ParseSeverity:extra:"+w, chk.Syntax[0].Pos(), "ParseSeverity accepts "+strq(w)+" as "+n+" (not documented)")
		}
	}
	// --fail-on default
	cmd := p.Pkg("cmd/pint")
	if cmd == nil {
		c.Undecided("C05-R1", "anchor:cmd/pint", token.NoPos, "package not found")
		return
	}
	nFailOnFlags := 0
	for _, f := range cmd.Syntax {
		if p.IsTestFile(f.Pos()) {
			continue
		}
		ast.Inspect(f, func(n ast.Node) bool {
			cl, ok := n.(*ast.CompositeLit)
			if !ok {
				return true
			}
			nm := litField(cl, "Name")
			if nm == nil {
				return true
			}
			if s, ok := stringValue(p, cmd, nm); ok && s == "fail-on" {
				nFailOnFlags++
				v := litField(cl, "Value")
				dv, _ := "", false
				if v != nil {
					dv, _ = constString(cmd.TypesInfo, v)
				}
				owner := "?"
				if fi := enclosingVar(cmd, cl.Pos()); fi != "" {
					owner = fi
				}
				c.Check(dv == "bug", "C05-R1", "flag fail-on default:"+owner, cl.Pos(), "defaults to bug", "--fail-on defaults to "+strq(dv)+", documented default is bug")
			}
			return true
		})
	}
	c.Check(nFailOnFlags >= 2, "C05-R1", "flag fail-on declared for lint and ci", token.NoPos, "declared twice", "fewer than two --fail-on flag declarations found")

	// ---- R2/R3 ----
	for _, fname := range []string{"cmd/pint.actionLint", "cmd/pint.actionCI"} {
		c05Verdict(c, fname)
	}

	// ---- R4 ----
	c05Counting(c)

	// ---- R5 ----
	nSev, nRep := 0, 0
	for _, pkg := range p.ModPkgs() {
		rel := relPkg(pkg.PkgPath)
		for _, f := range pkg.Syntax {
			if p.IsTestFile(f.Pos()) {
				continue
			}
			ast.Inspect(f, func(n ast.Node) bool {
				switch x := n.(type) {
				case *ast.AssignStmt:
					for _, l := range x.Lhs {
						if fieldSel(pkg.TypesInfo, l, "internal/checks.Problem", "Severity") {
							nSev++
							fi := p.enclosingFunc(x.Pos())
							c.Check(rel == "internal/checks", "C05-R5", "store Problem.Severity in "+fnName(fi), x.Pos(), "inside package checks", "Problem.Severity is rewritten outside package checks")
						}
						if fieldSel(pkg.TypesInfo, l, "internal/reporter.Summary", "reports") {
							nRep++
							fi := p.enclosingFunc(x.Pos())
							ok := fi != nil && (fi.Name == "internal/reporter.Summary.Report")
							// only appends are allowed in Report
							if ok {
								call, isCall := x.Rhs[0].(*ast.CallExpr)
								ok = isCall && exprStr(call.Fun) == "append" && fieldSel(pkg.TypesInfo, call.Args[0], "internal/reporter.Summary", "reports")
							}
							c.Check(ok, "C05-R5", "store Summary.reports in "+fnName(fi), x.Pos(), "append in Summary.Report", "Summary.reports is reassigned (reports can be dropped before counting)")
						}
					}
				case *ast.CompositeLit:
					if tv, ok := pkg.TypesInfo.Types[x]; ok && typeQName(tv.Type) == "internal/reporter.Summary" {
						if litField(x, "reports") != nil {
							fi := p.enclosingFunc(x.Pos())
							c.Check(fi != nil && fi.Name == "internal/reporter.NewSummary", "C05-R5", "literal Summary{reports} in "+fnName(fi), x.Pos(), "constructor", "Summary literal with reports outside NewSummary")
						}
					}
				}
				return true
			})
		}
	}
	// Summary.Report drops a report that isEqual to an earlier one: equality must include the severity
	if eq := c.MustFunc("C05-R5", "internal/reporter.Report.isEqual"); eq != nil {
		einfo := eq.Pkg.TypesInfo
		roots := map[types.Object]bool{}
		ast.Inspect(eq.Decl.Body, func(n ast.Node) bool {
			be, ok := n.(*ast.BinaryExpr)
			if !ok || (be.Op != token.NEQ && be.Op != token.EQL) {
				return true
			}
			if fieldSel(einfo, be.X, "internal/checks.Problem", "Severity") && fieldSel(einfo, be.Y, "internal/checks.Problem", "Severity") {
				rx, _, _ := accessPath(einfo, be.X)
				ry, _, _ := accessPath(einfo, be.Y)
				if rx != ry {
					roots[rx], roots[ry] = true, true
				}
			}
			return true
		})
		c.Check(len(roots) == 2, "C05-R5", "Report.isEqual compares Problem.Severity of both reports", eq.Decl.Pos(), "severity is part of report identity",
			"Report.isEqual no longer compares the severities: Summary.Report can drop a higher-severity report as a duplicate before counting")
		rep := c.P.Func("internal/reporter.Summary.hasReport")
		if rep == nil {
			// the existence test written inside Summary.Report itself
			rep = c.MustFunc("C05-R5", "internal/reporter.Summary.Report")
		}
		if rep != nil {
			uses := false
			ast.Inspect(rep.Decl.Body, func(n ast.Node) bool {
				if call, ok := n.(*ast.CallExpr); ok && isCallTo(rep.Pkg.TypesInfo, call, "internal/reporter.Report.isEqual") {
					uses = true
				}
				return true
			})
			c.Check(uses, "C05-R5", "Summary.hasReport decides by Report.isEqual", rep.Decl.Pos(), "uses isEqual", "hasReport no longer uses Report.isEqual; its drop criterion is unknown")
		}
	}
	c.Ok("C05-R5", "writers-enumerated", token.NoPos, "stores: Problem.Severity="+itoa(nSev)+" Summary.reports="+itoa(nRep))
}

func fnName(fi *FuncInfo) string {
	if fi == nil {
		return "<package scope>"
	}
	return fi.Name
}

func constantInt(k *types.Const) (int64, bool) {
	s := k.Val().ExactString()
	var v int64
	neg := false
	for i, ch := range s {
		if i == 0 && ch == '-' {
			neg = true
			continue
		}
		if ch < '0' || ch > '9' {
			return 0, false
		}
		v = v*10 + int64(ch-'0')
	}
	if neg {
		v = -v
	}
	return v, true
}

// enclosingVar names the package-level variable whose initialiser contains pos.
func enclosingVar(pkg *packages.Package, pos token.Pos) string {
	for _, f := range pkg.Syntax {
		for _, d := range f.Decls {
			gd, ok := d.(*ast.GenDecl)
			if !ok || gd.Pos() > pos || pos >= gd.End() {
				continue
			}
			for _, sp := range gd.Specs {
				if vs, ok := sp.(*ast.ValueSpec); ok && vs.Pos() <= pos && pos < vs.End() && len(vs.Names) > 0 {
					return vs.Names[0].Name
				}
			}
		}
	}
	return ""
}

func c05Verdict(c *Ctx, fname string) {
	p := c.P
	fi := c.MustFunc("C05-R2", fname)
	if fi == nil {
		return
	}
	info := fi.Pkg.TypesInfo
	short := fi.Obj.Name()
	// failOn := checks.ParseSeverity(c.String(failOnFlag))
	var failOn types.Object
	var minSev types.Object
	var counts types.Object
	var countsPos token.Pos
	ast.Inspect(fi.Decl.Body, func(n ast.Node) bool {
		as, ok := n.(*ast.AssignStmt)
		if !ok || len(as.Rhs) != 1 {
			return true
		}
		call, ok := as.Rhs[0].(*ast.CallExpr)
		if !ok {
			return true
		}
		switch {
		case isCallTo(info, call, "internal/checks.ParseSeverity") && len(call.Args) == 1:
			if inner, ok := call.Args[0].(*ast.CallExpr); ok && len(inner.Args) == 1 {
				flag, _ := stringValue(p, fi.Pkg, inner.Args[0])
				o := objOf(info, as.Lhs[0])
				switch flag {
				case "fail-on":
					failOn = o
				case "min-severity":
					minSev = o
				}
			}
		case isCallTo(info, call, "internal/reporter.Summary.CountBySeverity"):
			counts = objOf(info, as.Lhs[0])
			countsPos = as.Pos()
		}
		return true
	})
	if failOn == nil {
		c.Bad("C05-R2", short+":failOn := ParseSeverity(--fail-on)", fi.Decl.Pos(), "no variable is assigned from checks.ParseSeverity(c.String(\"fail-on\"))")
		return
	}
	c.Ok("C05-R2", short+":failOn := ParseSeverity(--fail-on)", failOn.Pos(), failOn.Name())
	if counts == nil {
		c.Bad("C05-R2", short+":counts := summary.CountBySeverity()", fi.Decl.Pos(), "CountBySeverity() result is not bound to a variable")
		return
	}
	c.Ok("C05-R2", short+":counts := summary.CountBySeverity()", countsPos, counts.Name())
	// single assignment of failOn
	nAssign := 0
	ast.Inspect(fi.Decl.Body, func(n ast.Node) bool {
		if as, ok := n.(*ast.AssignStmt); ok {
			for _, l := range as.Lhs {
				if objOf(info, l) == failOn {
					nAssign++
				}
			}
		}
		return true
	})
	c.Check(nAssign == 1, "C05-R3", short+":failOn assigned once", failOn.Pos(), "single assignment", "the fail-on threshold is reassigned")

	// the loop over counts
	var loop *ast.RangeStmt
	ast.Inspect(fi.Decl.Body, func(n ast.Node) bool {
		if rs, ok := n.(*ast.RangeStmt); ok && objOf(info, rs.X) == counts {
			if loop == nil {
				loop = rs
			}
		}
		return true
	})
	if loop == nil {
		c.Bad("C05-R2", short+":range counts", fi.Decl.Pos(), "no loop over the CountBySeverity() result")
		return
	}
	keyID, _ := loop.Key.(*ast.Ident)
	if keyID == nil {
		c.Undecided("C05-R2", short+":range counts", loop.Pos(), "loop has no key variable")
		return
	}
	sevObj := info.Defs[keyID]
	// find `if sev >= failOn { V ... }`
	var verdict types.Object
	var thresholdIf *ast.IfStmt
	for _, st := range loop.Body.List {
		ifs, ok := st.(*ast.IfStmt)
		if !ok {
			continue
		}
		be, ok := ast.Unparen(ifs.Cond).(*ast.BinaryExpr)
		if !ok {
			continue
		}
		mentionsFailOn := objOf(info, be.X) == failOn || objOf(info, be.Y) == failOn
		if !mentionsFailOn {
			continue
		}
		thresholdIf = ifs
		good := (be.Op == token.GEQ && objOf(info, be.X) == sevObj && objOf(info, be.Y) == failOn) ||
			(be.Op == token.LEQ && objOf(info, be.X) == failOn && objOf(info, be.Y) == sevObj)
		// the same test written as a skip: `if sev < failOn { continue }` followed by the update
		if !good && len(ifs.Body.List) == 1 && ifs.Else == nil {
			if br, isBr := ifs.Body.List[0].(*ast.BranchStmt); isBr && br.Tok == token.CONTINUE && br.Label == nil {
				neg := (be.Op == token.LSS && objOf(info, be.X) == sevObj && objOf(info, be.Y) == failOn) ||
					(be.Op == token.GTR && objOf(info, be.X) == failOn && objOf(info, be.Y) == sevObj)
				if neg {
					good = true
					after := false
					for _, bs := range loop.Body.List {
						if bs == ast.Stmt(ifs) {
							after = true
							continue
						}
						if !after || verdict != nil {
							continue
						}
						switch x := bs.(type) {
						case *ast.AssignStmt:
							if len(x.Lhs) == 1 {
								verdict = objOf(info, x.Lhs[0])
							}
						case *ast.IncDecStmt:
							verdict = objOf(info, x.X)
						}
					}
				}
			}
		}
		c.Check(good, "C05-R2", short+":threshold comparison is sev >= failOn", ifs.Cond.Pos(), exprStr(ifs.Cond), "threshold comparison is `"+exprStr(ifs.Cond)+"`, must be severity >= fail-on")
		for _, bs := range ifs.Body.List {
			switch x := bs.(type) {
			case *ast.AssignStmt:
				if len(x.Lhs) == 1 {
					verdict = objOf(info, x.Lhs[0])
				}
			case *ast.IncDecStmt:
				verdict = objOf(info, x.X)
			}
		}
	}
	if thresholdIf != nil && verdict == nil {
		// the verdict without a variable: the loop itself returns the error as soon as one severity reaches
		// the threshold, and the success exit follows the loop
		var failRet *ast.ReturnStmt
		scan := thresholdIf.Body.List
		if len(thresholdIf.Body.List) == 1 {
			if br, isBr := thresholdIf.Body.List[0].(*ast.BranchStmt); isBr && br.Tok == token.CONTINUE {
				scan = nil
				after := false
				for _, bs := range loop.Body.List {
					if bs == ast.Stmt(thresholdIf) {
						after = true
						continue
					}
					if after {
						scan = append(scan, bs)
					}
				}
			}
		}
		for _, bs := range scan {
			if r, isRet := bs.(*ast.ReturnStmt); isRet && len(r.Results) == 1 && !isNilIdent(info, r.Results[0]) {
				failRet = r
			}
		}
		if failRet != nil {
			// no success exit between the counting and the loop; the one after the loop exists
			early, afterLoop := "", false
			var countsPos token.Pos
			ast.Inspect(fi.Decl.Body, func(n ast.Node) bool {
				if as, ok := n.(*ast.AssignStmt); ok {
					for _, l := range as.Lhs {
						if objOf(info, l) == counts && countsPos == token.NoPos {
							countsPos = as.Pos()
						}
					}
				}
				return true
			})
			inspectNoLit(fi.Decl.Body, func(n ast.Node) bool {
				r, ok := n.(*ast.ReturnStmt)
				if !ok || len(r.Results) != 1 || !isNilIdent(info, r.Results[0]) {
					return true
				}
				switch {
				case r.Pos() > loop.End():
					afterLoop = true
				case r.Pos() > countsPos:
					early = p.Pos(r.Pos())
				}
				return true
			})
			extra := ""
			ast.Inspect(thresholdIf.Cond, func(n ast.Node) bool {
				if id, ok := n.(*ast.Ident); ok {
					if o := info.Uses[id]; o != nil && o != sevObj && o != failOn {
						extra = id.Name
					}
				}
				if _, ok := n.(*ast.CallExpr); ok {
					extra = "call"
				}
				return true
			})
			c.Check(extra == "", "C05-R3", short+":threshold test mentions only severity and fail-on", thresholdIf.Cond.Pos(), "pure", "threshold test also depends on "+extra)
			c.Check(early == "" && afterLoop, "C05-R2", short+":nil return dominated by verdict test", failRet.Pos(), "the loop returns the error itself; the success exit follows the loop",
				"with the verdict decided inside the loop (error returned there), a `return nil` at "+early+" lies between the counting and the loop, or no success exit follows the loop")
			c.Ok("C05-R2", short+":verdict true returns an error", failRet.Pos(), "returned from inside the threshold test")
			c.Ok("C05-R2", short+":threshold test reached for every severity", thresholdIf.Pos(), "first-level statement of the loop")
			c.Ok("C05-R3", short+":verdict written only under the threshold test", failRet.Pos(), "no verdict variable")
			return
		}
	}
	if thresholdIf == nil || verdict == nil {
		c.Bad("C05-R2", short+":threshold comparison is sev >= failOn", loop.Pos(), "no `if sev >= failOn` that updates a verdict variable at the top level of the loop over CountBySeverity()")
		return
	}
	// thresholdIf must not be preceded in the loop body by a conditional skip
	for _, st := range loop.Body.List {
		if st == thresholdIf {
			break
		}
		skip := false
		inspectNoLit(st, func(n ast.Node) bool {
			if b, ok := n.(*ast.BranchStmt); ok && (b.Tok == token.CONTINUE || b.Tok == token.BREAK || b.Tok == token.GOTO) {
				skip = true
			}
			if _, ok := n.(*ast.ReturnStmt); ok {
				skip = true
			}
			return true
		})
		if skip {
			c.Bad("C05-R2", short+":threshold test reached for every severity", st.Pos(), "a statement before the threshold test can skip it")
		}
	}
	c.Ok("C05-R2", short+":threshold test reached for every severity", thresholdIf.Pos(), "first-level statement of the loop")

	// all writes to verdict: declaration (zero/false) or inside thresholdIf
	okWrites := true
	where := ""
	ast.Inspect(fi.Decl.Body, func(n ast.Node) bool {
		var lhs []ast.Expr
		switch x := n.(type) {
		case *ast.AssignStmt:
			lhs = x.Lhs
			if x.Tok == token.DEFINE {
				// declaration: must be a constant false / 0
				for i, l := range x.Lhs {
					if objOf(info, l) == verdict && i < len(x.Rhs) {
						tv := info.Types[x.Rhs[i]]
						if tv.Value == nil || (tv.Value.String() != "false" && tv.Value.String() != "0") {
							okWrites = false
							where = p.Pos(x.Pos())
						}
					}
				}
				return true
			}
		case *ast.IncDecStmt:
			lhs = []ast.Expr{x.X}
		case *ast.UnaryExpr:
			if x.Op == token.AND && objOf(info, x.X) == verdict {
				okWrites = false
				where = p.Pos(x.Pos())
			}
		}
		for _, l := range lhs {
			if objOf(info, l) == verdict && !(thresholdIf.Body.Pos() <= n.Pos() && n.End() <= thresholdIf.Body.End()) {
				okWrites = false
				where = p.Pos(n.Pos())
			}
		}
		return true
	})
	c.Check(okWrites, "C05-R3", short+":verdict written only under the threshold test", verdict.Pos(), "single writer", "verdict variable "+verdict.Name()+" is also written at "+where)
	if minSev != nil {
		uses := false
		ast.Inspect(thresholdIf, func(n ast.Node) bool {
			if id, ok := n.(*ast.Ident); ok && info.Uses[id] == minSev {
				uses = true
			}
			return true
		})
		c.Check(!uses, "C05-R3", short+":min-severity not used by the threshold test", thresholdIf.Pos(), "independent", "--min-severity value is used inside the fail-on test")
	}
	// condition of the threshold if mentions only sev and failOn
	extra := ""
	ast.Inspect(thresholdIf.Cond, func(n ast.Node) bool {
		if id, ok := n.(*ast.Ident); ok {
			if o := info.Uses[id]; o != nil && o != sevObj && o != failOn {
				extra = id.Name
			}
		}
		if _, ok := n.(*ast.CallExpr); ok {
			extra = "call"
		}
		return true
	})
	c.Check(extra == "", "C05-R3", short+":threshold test mentions only severity and fail-on", thresholdIf.Cond.Pos(), "pure", "threshold test also depends on "+extra)

	// verdict test: `if V > 0` / `if V`
	fl := p.NewFlow(fi)
	isVerdictAtom := func(a Atom) (truthMeansFail bool, ok bool) {
		if a.Tag != nil {
			return false, false
		}
		e := ast.Unparen(a.E)
		if objOf(info, e) == verdict {
			return true, true
		}
		if be, isBin := e.(*ast.BinaryExpr); isBin && objOf(info, be.X) == verdict {
			if v, isC := constInt(info, be.Y); isC && v == 0 {
				switch be.Op {
				case token.GTR, token.NEQ:
					return true, true
				case token.EQL, token.LEQ:
					return false, true
				}
			}
		}
		return false, false
	}
	// start site: the statement binding counts
	var start *Site
	for _, sm := range fl.Find(func(n ast.Node) bool { return n.Pos() == countsPos }) {
		s := sm.Site
		start = &s
		break
	}
	if start == nil {
		c.Undecided("C05-R2", short+":nil return dominated by verdict test", countsPos, "cannot locate the counting statement in the CFG")
		return
	}
	// every `return nil` reachable from start must be dominated by verdict==false
	nilReturns := fl.Find(func(n ast.Node) bool {
		r, ok := n.(*ast.ReturnStmt)
		return ok && len(r.Results) == 1 && isNilIdent(info, r.Results[0])
	})
	nchecked := 0
	for _, rs := range nilReturns {
		target := rs.Site
		reachable, _ := fl.Reach(*start, func(s Site) bool { return s == target }, false, PathQ{})
		if !reachable {
			continue
		}
		nchecked++
		escapes, _ := fl.Reach(*start, func(s Site) bool { return s == target }, false, PathQ{
			Cut: func(atoms []Atom) bool {
				for _, a := range atoms {
					if tf, ok := isVerdictAtom(a); ok && a.Truth != tf {
						return true
					}
				}
				return false
			},
		})
		c.Check(!escapes, "C05-R2", short+":nil return dominated by verdict test", rs.Inner.Pos(), "success exit only when no problem reached the threshold", "a `return nil` after counting is reachable without passing the false edge of the verdict test")
	}
	// converse: every error return reachable after counting is either the verdict's or propagates an operational error
	errReturns := fl.Find(func(n ast.Node) bool {
		r, ok := n.(*ast.ReturnStmt)
		return ok && len(r.Results) == 1 && !isNilIdent(info, r.Results[0])
	})
	for _, rs := range errReturns {
		target := rs.Site
		if reachable, _ := fl.Reach(*start, func(s Site) bool { return s == target }, false, PathQ{}); !reachable {
			continue
		}
		byVerdict := fl.Dominated(rs.Site, nil, func(a Atom) bool {
			tf, ok := isVerdictAtom(a)
			return ok && a.Truth == tf
		})
		byOpErr := fl.Dominated(rs.Site, nil, func(a Atom) bool {
			x, isNil, ok := nilAtom(info, a)
			if !ok || isNil {
				return false
			}
			t := info.TypeOf(x)
			return t != nil && t.String() == "error"
		})
		c.Check(byVerdict || byOpErr, "C05-R2", short+":error exit after counting is the verdict's or an operational failure", rs.Inner.Pos(), "dominated by the verdict test or by `err != nil`",
			"an error return after counting is guarded neither by the verdict test nor by an operational error: the run can fail although no problem reached --fail-on")
	}
	c.Check(nchecked > 0, "C05-R2", short+":success exit exists after counting", fi.Decl.Pos(), itoa(nchecked)+" nil return(s)", "no `return nil` reachable after counting")
	// the true edge of the verdict test leads to a non-nil return
	okFail := false
	ast.Inspect(fi.Decl.Body, func(n ast.Node) bool {
		ifs, ok := n.(*ast.IfStmt)
		if !ok {
			return true
		}
		tf, isV := isVerdictAtom(Atom{E: ifs.Cond, Truth: true})
		if !isV || !tf || len(ifs.Body.List) == 0 {
			return true
		}
		if r, ok := ifs.Body.List[len(ifs.Body.List)-1].(*ast.ReturnStmt); ok && len(r.Results) == 1 && !isNilIdent(info, r.Results[0]) {
			if t := info.TypeOf(r.Results[0]); t != nil && t.String() == "error" {
				okFail = true
			}
		}
		return true
	})
	c.Check(okFail, "C05-R2", short+":verdict true returns an error", fi.Decl.Pos(), "non-nil error returned", "no `if verdict { return <error> }` found")
}

func c05Counting(c *Ctx) {
	p := c.P
	fi := c.MustFunc("C05-R4", "internal/reporter.Summary.CountBySeverity")
	if fi == nil {
		return
	}
	info := fi.Pkg.TypesInfo
	var loop *ast.RangeStmt
	ast.Inspect(fi.Decl.Body, func(n ast.Node) bool {
		if rs, ok := n.(*ast.RangeStmt); ok && loop == nil {
			loop = rs
		}
		return true
	})
	if loop == nil {
		c.Bad("C05-R4", "CountBySeverity:loop", fi.Decl.Pos(), "no loop")
		return
	}
	src := "?"
	okSrc := false
	if call, ok := ast.Unparen(loop.X).(*ast.CallExpr); ok && isCallTo(info, call, "internal/reporter.Summary.Reports") {
		src, okSrc = "s.Reports()", true
	} else if fieldSel(info, loop.X, "internal/reporter.Summary", "reports") {
		src, okSrc = "s.reports", true
	}
	c.Check(okSrc, "C05-R4", "CountBySeverity:ranges over all reports", loop.Pos(), src, "CountBySeverity ranges over "+exprStr(loop.X)+", not the full report list")
	// Reports() returns s.reports
	if rp := c.MustFunc("C05-R4", "internal/reporter.Summary.Reports"); rp != nil {
		rets := returnsIn(rp.Decl.Body.List)
		ok := len(rets) == 1 && len(rets[0].Results) == 1 && fieldSel(rp.Pkg.TypesInfo, rets[0].Results[0], "internal/reporter.Summary", "reports") && len(rp.Decl.Body.List) == 1
		c.Check(ok, "C05-R4", "Reports() returns s.reports unfiltered", rp.Decl.Pos(), "identity", "Summary.Reports() is no longer `return s.reports`")
	}
	// increment on every path of the body: a top-level IncDec on m[report.Problem.Severity] and no jumps before it
	var inc *ast.IncDecStmt
	jumpBefore := false
	for _, st := range loop.Body.List {
		if x, ok := st.(*ast.IncDecStmt); ok && x.Tok == token.INC {
			if ix, ok := x.X.(*ast.IndexExpr); ok && fieldSel(info, ix.Index, "internal/checks.Problem", "Severity") {
				inc = x
				break
			}
		}
		inspectNoLit(st, func(n ast.Node) bool {
			switch b := n.(type) {
			case *ast.BranchStmt:
				if b.Tok != token.FALLTHROUGH {
					jumpBefore = true
				}
			case *ast.ReturnStmt:
				jumpBefore = true
			}
			return true
		})
	}
	c.Check(inc != nil && !jumpBefore, "C05-R4", "CountBySeverity:increments m[report.Problem.Severity] on every iteration", loop.Pos(), "unconditional increment keyed by the report's severity", "the per-severity counter is not incremented unconditionally for every report")
	if inc != nil {
		// the key must be the loop variable's Problem.Severity
		ix := inc.X.(*ast.IndexExpr)
		root, _, _ := accessPath(info, ix.Index)
		val, _ := loop.Value.(*ast.Ident)
		c.Check(val != nil && root == info.Defs[val], "C05-R4", "CountBySeverity:key is the ranged report's severity", inc.Pos(), "keyed by loop variable", "counter is keyed by "+exprStr(ix.Index))
	}
	_ = p
}

// c05ReporterIO: a reporter error makes the command exit non-zero whatever the
// severities are. The console reporter may read the rule file only for reports
// anchored after the change: a report anchored before (a removed rule, a
// deleted file) points at a file that need not exist any more.
func c05ReporterIO(c *Ctx) {
	p := c.P
	fi := c.MustFunc("C05-R2", "internal/reporter.ConsoleReporter.Submit")
	if fi == nil {
		return
	}
	info := fi.Pkg.TypesInfo
	fl := p.NewFlow(fi)
	reads := fl.Find(func(n ast.Node) bool {
		call, ok := n.(*ast.CallExpr)
		if !ok {
			return false
		}
		if isCallTo(info, call, "internal/reporter.readFile") {
			return true
		}
		fn := Callee(info, call)
		return fn != nil && fn.Pkg() != nil && fn.Pkg().Path() == "os" && (fn.Name() == "ReadFile" || fn.Name() == "Open")
	})
	for i, r := range reads {
		ok := fl.Dominated(r.Site, r.Inner, func(a Atom) bool {
			be, isBin := ast.Unparen(a.E).(*ast.BinaryExpr)
			if !isBin || a.Tag != nil {
				return false
			}
			k := constObj(info, be.Y)
			if k == nil {
				k = constObj(info, be.X)
			}
			if k == nil || k.Name() != "AnchorAfter" {
				return false
			}
			return (be.Op == token.EQL && a.Truth) || (be.Op == token.NEQ && !a.Truth)
		})
		c.Check(ok, "C05-R2", "ConsoleReporter.Submit:file read #"+itoa(i+1)+" only for reports anchored after the change", r.Inner.Pos(), "guarded by Anchor == AnchorAfter",
			"the console reporter reads the rule file for reports that are not anchored after the change: for a removed rule in a deleted file the read fails, Submit returns the error and `pint ci` exits non-zero although no problem reaches --fail-on")
	}
	c.Check(len(reads) >= 1, "C05-R2", "ConsoleReporter.Submit:file reads enumerated", fi.Decl.Pos(), itoa(len(reads)), "no file read found in the console reporter")
}

// c05ReportsNotEditedInPlace: reporters get the Summary by value, but its
// reports slice shares the backing array with the summary the action counts
// severities on afterwards. Passing Summary.reports to a function that edits
// its argument in place (slices.CompactFunc, Delete, Sort…, Reverse, Insert,
// sort.*) anywhere but in Summary's own methods rewrites what is counted: a
// "unique names" clean-up in one reporter can erase a Bug before the verdict.
func c05ReportsNotEditedInPlace(c *Ctx) {
	p := c.P
	inPlace := map[string]bool{"Compact": true, "CompactFunc": true, "Delete": true, "DeleteFunc": true, "Insert": true, "Replace": true, "Reverse": true,
		"Sort": true, "SortFunc": true, "SortStableFunc": true, "Slice": true, "SliceStable": true, "Stable": true}
	n, bad := 0, ""
	for _, fi := range p.AllFuncs() {
		if fi.Decl.Body == nil || p.IsTestFile(fi.Decl.Pos()) || relPkg(fi.Pkg.PkgPath) != "internal/reporter" {
			continue
		}
		info := fi.Pkg.TypesInfo
		isSummaryMethod := strings.HasPrefix(fi.Name, "internal/reporter.Summary.")
		ast.Inspect(fi.Decl.Body, func(nd ast.Node) bool {
			call, ok := nd.(*ast.CallExpr)
			if !ok || len(call.Args) == 0 {
				return true
			}
			fn := Callee(info, call)
			if fn == nil || fn.Pkg() == nil || (fn.Pkg().Path() != "slices" && fn.Pkg().Path() != "sort") || !inPlace[fn.Name()] {
				return true
			}
			if !fieldSel(info, call.Args[0], "internal/reporter.Summary", "reports") {
				return true
			}
			n++
			if !isSummaryMethod {
				bad = fi.Name + " (" + fn.Pkg().Path() + "." + fn.Name() + ")"
			}
			return true
		})
		// element stores through the field: summary.reports[i] = …
		ast.Inspect(fi.Decl.Body, func(nd ast.Node) bool {
			as, ok := nd.(*ast.AssignStmt)
			if !ok || isSummaryMethod {
				return true
			}
			for _, l := range as.Lhs {
				root := l
				for {
					switch x := ast.Unparen(root).(type) {
					case *ast.IndexExpr:
						if fieldSel(info, x.X, "internal/reporter.Summary", "reports") {
							bad = fi.Name + " (element store)"
						}
						root = x.X
						continue
					case *ast.SelectorExpr:
						root = x.X
						continue
					}
					break
				}
			}
			return true
		})
	}
	c.Check(bad == "", "C05-R5", "Summary.reports is edited in place only by Summary's own methods", token.NoPos, itoa(n)+" in-place edits, all in Summary methods",
		"Summary.reports is edited in place in "+bad+": the slice shares its backing array with the summary whose severities are counted after the reporters ran, so a report can be dropped or zeroed (severity Information) before the exit status is decided")
}

// c05SeverityPerBlock: the severity a configured check reports with is the one
// of its own settings block. In config.parseRule every checks.Severity handed
// to a constructor is a local with a single definition, and that definition
// lies inside every loop that encloses the constructor call: a severity
// variable that lives across the iterations of a loop over settings blocks
// lets one block's `severity = "bug"` leak into the next block, and a run that
// should only warn fails with the default --fail-on.
func c05SeverityPerBlock(c *Ctx, rule string) {
	fi := c.MustFunc(rule, "internal/config.parseRule")
	if fi == nil {
		return
	}
	info := fi.Pkg.TypesInfo
	pm := parentMap(fi.Decl.Body)
	loopsOf := func(n ast.Node) []ast.Node {
		var out []ast.Node
		for cur := pm[n]; cur != nil; cur = pm[cur] {
			switch cur.(type) {
			case *ast.RangeStmt, *ast.ForStmt:
				out = append(out, cur)
			}
		}
		return out
	}
	n, bad := 0, ""
	ast.Inspect(fi.Decl.Body, func(nd ast.Node) bool {
		call, ok := nd.(*ast.CallExpr)
		if !ok {
			return true
		}
		fn := Callee(info, call)
		if fn == nil || fn.Pkg() == nil || relPkg(fn.Pkg().Path()) != "internal/checks" || !strings.HasPrefix(fn.Name(), "New") {
			return true
		}
		for _, a := range call.Args {
			if typeQName(info.TypeOf(a)) != "internal/checks.Severity" {
				continue
			}
			id, isID := ast.Unparen(a).(*ast.Ident)
			if !isID {
				continue // a call or a constant: nothing to carry over
			}
			o, isVar := info.Uses[id].(*types.Var)
			if !isVar || o.IsField() || o.Parent() == nil || o.Parent() == o.Pkg().Scope() {
				continue
			}
			n++
			var defs []*ast.AssignStmt
			ast.Inspect(fi.Decl.Body, func(m ast.Node) bool {
				if as, ok := m.(*ast.AssignStmt); ok {
					for _, l := range as.Lhs {
						if objOf(info, l) == types.Object(o) {
							defs = append(defs, as)
						}
					}
				}
				return true
			})
			// defined once and never assigned again: nothing can be carried over. Otherwise the
			// variable must at least be declared inside every loop around the constructor call.
			okVar := len(defs) == 1 && defs[0].Tok == token.DEFINE
			if !okVar && len(defs) > 0 {
				var first *ast.AssignStmt
				for _, d := range defs {
					if d.Tok == token.DEFINE {
						first = d
					}
				}
				if first != nil {
					okVar = true
					dl := map[ast.Node]bool{}
					for _, l := range loopsOf(first) {
						dl[l] = true
					}
					for _, l := range loopsOf(call) {
						if !dl[l] {
							okVar = false
						}
					}
				}
			}
			if !okVar {
				bad = fn.Name() + " at " + c.P.Pos(call.Pos())
			}
		}
		return true
	})
	c.Check(n >= 10 && bad == "", rule, "parseRule:every check gets the severity of its own settings block", fi.Decl.Pos(), itoa(n)+" severity arguments, each defined once (or declared inside the loops of its constructor call)",
		"the severity passed to "+bad+" is a variable that is assigned more than once or outlives the iterations of the loop over settings blocks: a block without `severity` inherits the value of an earlier block")
}
