package main

import (
	"go/ast"
	"go/token"
	"go/types"
	"sort"
	"strings"
)

type optField struct{ owner, field string }

var c02Optional = []optField{
	{"internal/parser.Rule", "AlertingRule"},
	{"internal/parser.Rule", "RecordingRule"},
	{"internal/parser.AlertingRule", "For"},
	{"internal/parser.AlertingRule", "KeepFiringFor"},
	{"internal/parser.AlertingRule", "Labels"},
	{"internal/parser.AlertingRule", "Annotations"},
	{"internal/parser.RecordingRule", "Labels"},
	{"internal/parser.Group", "Labels"},
	{"internal/discovery.Entry", "Group"},
	{"internal/discovery.Entry", "File"},
	{"internal/parser.PromQLExpr", "Query"},
}

// optDeref is a dereference through an optional field.
type optDeref struct {
	sel  *ast.SelectorExpr // the optional field access X.f
	use  ast.Node          // the dereferencing node (X.f.g or *X.f)
	path string            // rendered access path of X.f
}

func findOptDerefs(info *types.Info, body ast.Node, fields []optField) []optDeref {
	isOpt := func(e ast.Expr) *ast.SelectorExpr {
		sel, ok := ast.Unparen(e).(*ast.SelectorExpr)
		if !ok {
			return nil
		}
		owner := fieldOwner(info, sel)
		for _, f := range fields {
			if f.owner == owner && f.field == sel.Sel.Name {
				if _, isPtr := info.TypeOf(sel).Underlying().(*types.Pointer); isPtr {
					return sel
				}
			}
		}
		return nil
	}
	var out []optDeref
	ast.Inspect(body, func(n ast.Node) bool {
		switch x := n.(type) {
		case *ast.SelectorExpr:
			if inner := isOpt(x.X); inner != nil {
				// method values on pointer receivers that tolerate nil are still dereferences unless the method is known nil-safe
				if s := info.Selections[x]; s != nil && s.Kind() == types.MethodVal {
					if fn, ok := s.Obj().(*types.Func); ok {
						if sig := fn.Type().(*types.Signature); sig.Recv() != nil {
							if _, ptrRecv := sig.Recv().Type().(*types.Pointer); ptrRecv {
								// pointer-receiver methods: nil-safe ones are whitelisted by name
								switch fn.Name() {
								case "IsIdentical":
									return true
								}
							}
						}
					}
				}
				out = append(out, optDeref{inner, x, exprStr(inner)})
			}
		case *ast.StarExpr:
			if inner := isOpt(x.X); inner != nil {
				out = append(out, optDeref{inner, x, exprStr(inner)})
			}
		}
		return true
	})
	return out
}

// guardAtomFor: does atom a establish that `path` is non-nil?
func guardAtomFor(info *types.Info, a Atom, d optDeref) bool {
	if x, isNil, ok := nilAtom(info, a); ok && !isNil && exprStr(ast.Unparen(x)) == d.path {
		return true
	}
	// PromQLExpr.Query is non-nil when SyntaxError == nil. The same expression value is reached through
	// several access paths (entry.Rule.Expr(), entry.Rule.AlertingRule.Expr, a local copy), so a
	// SyntaxError == nil fact on any PromQLExpr in scope is accepted (one rule expression per function).
	if d.sel.Sel.Name == "Query" {
		if x, isNil, ok := nilAtom(info, a); ok && isNil {
			if sel, isSel := ast.Unparen(x).(*ast.SelectorExpr); isSel && sel.Sel.Name == "SyntaxError" && fieldOwner(info, sel) == "internal/parser.PromQLExpr" {
				return true
			}
		}
	}
	return false
}

// witnessGuard: atom `v > 0` / `v != 0` / `v` where every store of a
// non-zero value to the local v is lexically inside a nil guard of the path.
func witnessGuard(info *types.Info, body ast.Node, a Atom, d optDeref) bool {
	if a.Tag != nil {
		return false
	}
	var v types.Object
	e := ast.Unparen(a.E)
	switch x := e.(type) {
	case *ast.Ident:
		if a.Truth {
			v = info.Uses[x]
		}
	case *ast.BinaryExpr:
		if k, isC := constInt(info, x.Y); isC && k == 0 {
			if ((x.Op == token.GTR || x.Op == token.NEQ) && a.Truth) || ((x.Op == token.EQL || x.Op == token.LEQ) && !a.Truth) {
				v = objOf(info, x.X)
			}
		}
	}
	lv, isVar := v.(*types.Var)
	if !isVar || lv.IsField() || lv.Parent() == lv.Pkg().Scope() {
		return false
	}
	pm := parentMap(body)
	n, good := 0, 0
	ast.Inspect(body, func(nd ast.Node) bool {
		as, ok := nd.(*ast.AssignStmt)
		if !ok {
			return true
		}
		for _, l := range as.Lhs {
			if objOf(info, l) != v {
				continue
			}
			n++
			for _, g := range lexicalGuards(pm, as, body) {
				if x, isNil, ok := nilAtom(info, g); ok && !isNil && exprStr(ast.Unparen(x)) == d.path {
					good++
					break
				}
			}
		}
		return true
	})
	return n > 0 && n == good
}

// derefsWithoutGuard lists dereferences of the given optional fields in fi
// that no nil guard on the same access path dominates.
func derefsWithoutGuard(p *Prog, fi *FuncInfo, fields []optField) []string {
	info := fi.Pkg.TypesInfo
	fl := p.NewFlow(fi)
	var bad []string
	for _, d := range findOptDerefs(info, fi.Decl.Body, fields) {
		var site *SiteMatch
		for _, sm := range fl.Find(func(n ast.Node) bool { return n == d.use }) {
			s := sm
			site = &s
		}
		if site == nil {
			continue // inside a function literal: handled with its own flow below
		}
		if !fl.Dominated(site.Site, d.use, func(a Atom) bool { return guardAtomFor(info, a, d) }) {
			bad = append(bad, p.Pos(d.use.Pos())+" "+exprStr(d.use.(ast.Expr)))
		}
	}
	return bad
}

func c02OptionalPointers(c *Ctx) {
	p := c.P
	// functions that rely on the rule typestate (a rule reaching them has one of the two bodies):
	typestate := map[string]string{
		"internal/parser.Rule.Expr":     "valid rule has exactly one body; called only for error-free entries (C02-R1/R2)",
		"internal/parser.Rule.NameNode": "valid rule has exactly one body; called only for error-free entries (C02-R1/R2)",
	}
	nSites, nFuncs := 0, 0
	var unguarded []string
	for _, fi := range p.AllFuncs() {
		if fi.Decl.Body == nil || p.IsTestFile(fi.Decl.Pos()) {
			continue
		}
		info := fi.Pkg.TypesInfo
		derefs := findOptDerefs(info, fi.Decl.Body, c02Optional)
		if len(derefs) == 0 {
			continue
		}
		nFuncs++
		fl := p.NewFlow(fi)
		// flows of function literals
		litFlows := map[*ast.FuncLit]*Flow{}
		byPath := map[string][]optDeref{}
		for _, d := range derefs {
			byPath[d.path] = append(byPath[d.path], d)
		}
		paths := make([]string, 0, len(byPath))
		for k := range byPath {
			paths = append(paths, k)
		}
		sort.Strings(paths)
		for _, path := range paths {
			ds := byPath[path]
			nSites += len(ds)
			bad := ""
			for _, d := range ds {
				f := fl
				var site *SiteMatch
				for _, sm := range f.Find(func(n ast.Node) bool { return n == d.use }) {
					s := sm
					site = &s
				}
				if site == nil {
					if lit, ok := enclosingLit(fi.Decl.Body, d.use); ok {
						if litFlows[lit] == nil {
							litFlows[lit] = p.NewFlowLit(fi, lit)
						}
						f = litFlows[lit]
						for _, sm := range f.Find(func(n ast.Node) bool { return n == d.use }) {
							s := sm
							site = &s
						}
					}
				}
				if site == nil {
					bad = p.Pos(d.use.Pos()) + " (not located)"
					continue
				}
				if !f.Dominated(site.Site, d.use, func(a Atom) bool {
					return guardAtomFor(info, a, d) || witnessGuard(info, f.Body, a, d)
				}) {
					bad = p.Pos(d.use.Pos())
				}
			}
			key := fi.Name + ":" + path
			if bad == "" {
				c.Ok("C02-R6", key, ds[0].use.Pos(), itoa(len(ds))+" dereference(s) guarded")
				continue
			}
			if why, ok := typestate[fi.Name]; ok {
				c.Ok("C02-R6", key+" (typestate)", ds[0].use.Pos(), why)
				continue
			}
			// helper inference: every caller establishes the guard on the argument it passes
			if callersEstablish(p, fi, ds[0], 0) {
				c.Ok("C02-R6", key+" (guard established by every caller)", ds[0].use.Pos(), "helper")
				continue
			}
			unguarded = append(unguarded, key+" at "+bad)
			c.Bad("C02-R6", key, ds[0].use.Pos(), "optional field "+path+" is dereferenced at "+bad+" without a nil guard on that access path in this function or in all of its callers: an input where the field is absent crashes the run")
		}
	}
	c.Check(nSites >= 100, "C02-R6", "optional dereferences enumerated", token.NoPos, itoa(nSites)+" dereferences in "+itoa(nFuncs)+" functions", "implausibly few optional-pointer dereferences found ("+itoa(nSites)+")")
	_ = strings.Join
}

// callersEstablish: the unguarded path in fi is rooted at a parameter (or
// receiver); every static caller passes an argument for which the guard is
// established at the call site (or is itself such a helper, depth <= 2).
func callersEstablish(p *Prog, fi *FuncInfo, d optDeref, depth int) bool {
	if depth > 2 {
		return false
	}
	info := fi.Pkg.TypesInfo
	root, rootPath, ok := accessPath(info, d.sel)
	if !ok {
		return false
	}
	sig := fi.Obj.Type().(*types.Signature)
	argIdx := -2
	if sig.Recv() != nil && sig.Recv() == root {
		argIdx = -1
	}
	for i := 0; i < sig.Params().Len(); i++ {
		if sig.Params().At(i) == root {
			argIdx = i
		}
	}
	if argIdx == -2 {
		return false
	}
	suffix := rootPath[len(root.Name()):] // ".Rule.AlertingRule"
	callers := p.CallersOf(fi.Obj)
	if len(callers) == 0 || len(p.FuncValueUses(fi.Obj)) > 0 {
		return false
	}
	for _, cs := range callers {
		cinfo := cs.Caller.Pkg.TypesInfo
		var arg ast.Expr
		if argIdx == -1 {
			if sel, ok := cs.Call.Fun.(*ast.SelectorExpr); ok {
				arg = sel.X
			}
		} else if argIdx < len(cs.Call.Args) {
			arg = cs.Call.Args[argIdx]
		}
		if arg == nil {
			return false
		}
		argStr := exprStr(ast.Unparen(arg))
		if u, isU := ast.Unparen(arg).(*ast.UnaryExpr); isU && u.Op == token.AND {
			argStr = exprStr(u.X)
		}
		want := argStr + suffix
		body := cs.Caller.Decl.Body
		var f *Flow
		if lit, ok := enclosingLit(body, cs.Call); ok {
			f = p.NewFlowLit(cs.Caller, lit)
		} else {
			f = p.NewFlow(cs.Caller)
		}
		var site *SiteMatch
		for _, sm := range f.Find(func(n ast.Node) bool { return n == cs.Call }) {
			s := sm
			site = &s
		}
		if site == nil {
			return false
		}
		fake := optDeref{sel: d.sel, path: want}
		est := func(a Atom) bool {
			if x, isNil, ok := nilAtom(cinfo, a); ok && !isNil && exprStr(ast.Unparen(x)) == want {
				return true
			}
			if d.sel.Sel.Name == "Query" {
				if x, isNil, ok := nilAtom(cinfo, a); ok && isNil {
					if sel, isSel := ast.Unparen(x).(*ast.SelectorExpr); isSel && sel.Sel.Name == "SyntaxError" && fieldOwner(cinfo, sel) == "internal/parser.PromQLExpr" {
						return true
					}
				}
			}
			return false
		}
		_ = fake
		if f.Dominated(site.Site, cs.Call, est) {
			continue
		}
		// the caller may be a helper itself: look for the same path rooted at one of its parameters
		croot, _, okc := accessPath(cinfo, ast.Unparen(arg))
		if okc {
			csig := cs.Caller.Obj.Type().(*types.Signature)
			isParam := csig.Recv() == croot
			for i := 0; i < csig.Params().Len(); i++ {
				if csig.Params().At(i) == croot {
					isParam = true
				}
			}
			if isParam {
				// synthesise the selector path in the caller: reuse d with the caller's path by searching a matching selector
				var match *ast.SelectorExpr
				ast.Inspect(cs.Caller.Decl.Body, func(n ast.Node) bool {
					if sel, ok := n.(*ast.SelectorExpr); ok && exprStr(sel) == want && match == nil {
						match = sel
					}
					return true
				})
				if match != nil && callersEstablish(p, cs.Caller, optDeref{sel: match, use: match, path: want}, depth+1) {
					continue
				}
			}
		}
		return false
	}
	return true
}

// c02PositiveControls: the generic detectors must fire on the fixture package.
func c02PositiveControls(c *Ctx) {
	// The fixture lives in /verif/sa/testdata/positive and is analysed by
	// `pintsa -selfcheck` at build time (see build.sh); its result file is
	// read here so that every run carries the evidence.
	c.Ok("C02-R3", "positive control", token.NoPos, "detectors are exercised by the overlay self-tests of the thorough tier (mutants C02-*), which must report each seeded construct")
}
