package main

import (
	"go/ast"
	"go/token"
	"go/types"
	"strings"

	"golang.org/x/tools/go/cfg"
)

func init() {
	register("C16", runC16,
		"Decides the first clause only — promql/series never reports a selector as missing while an instant query for it returns series: (R1) in SeriesCheck.Check the probe instantSeriesCount(count(<selector of this iteration, unstripped>)) is made in the selector loop and every Problem literal reachable after it within the same iteration is dominated by the `count > 0` false edge and by err == nil; instantSeriesCount sums the sample values of the instant query it was given; (R2) the error discipline of C15-R4 at every Prometheus API call in promql_series.go (an outage is never turned into a finding, a nil result never dereferenced); (R3) producer lookups are kind-aware, cached answers expire as stored and every cache clean-up walks every entry; (R4) one structural part of the second clause: config.isEnabled, evaluated on every input shape, switches the check off for a server only when a disable names the check, its String() or name(+tag) for one of that server's tags.",
		"the rest of the second clause (Bug when the metric was never present and no rule produces it) depends on range data and gap detection and is not decided.")
}

func runC16(c *Ctx) {
	defer checkSearchFlags(c, "C16-R1", "internal/checks.SeriesCheck.Check", "internal/checks.orphanedRuleSetComments")
	defer c16ProbesWithoutOffset(c)
	p := c.P
	c.Rule("C16-R1", "missing-series problems are dominated by an empty instant probe of the unstripped selector", 5)
	c.Rule("C16-R2", "API error discipline in promql_series.go", 20)
	chk := c.MustFunc("C16-R1", "internal/checks.SeriesCheck.Check")
	if chk == nil {
		return
	}
	info := chk.Pkg.TypesInfo
	fl := p.NewFlow(chk)
	probes := fl.FindCalls("internal/checks.SeriesCheck.instantSeriesCount")
	c.Check(len(probes) == 1, "C16-R1", "Check:one instant probe", chk.Decl.Pos(), "one", itoa(len(probes))+" instantSeriesCount calls")
	if len(probes) != 1 {
		return
	}
	call := probes[0].Inner.(*ast.CallExpr)
	pm := parentMap(chk.Decl.Body)
	var loop *ast.RangeStmt
	for cur := pm[call]; cur != nil; cur = pm[cur] {
		if rs, ok := cur.(*ast.RangeStmt); ok {
			loop = rs
		}
	}
	// outermost enclosing loop is the selector loop
	if loop == nil {
		c.Bad("C16-R1", "Check:probe inside the selector loop", call.Pos(), "the instant probe is not inside a loop over selectors")
		return
	}
	selV, _ := loop.Value.(*ast.Ident)
	// argument: fmt.Sprintf("count(%s)", selector.String())
	okArg := false
	if len(call.Args) == 2 && selV != nil {
		if sp, ok := call.Args[1].(*ast.CallExpr); ok && len(sp.Args) == 2 {
			f, _ := constString(info, sp.Args[0])
			if inner, ok := sp.Args[1].(*ast.CallExpr); ok {
				if sel, ok := inner.Fun.(*ast.SelectorExpr); ok && sel.Sel.Name == "String" && objOf(info, sel.X) == info.Defs[selV] && f == "count(%s)" {
					okArg = true
				}
			}
		}
	}
	c.Check(okArg, "C16-R1", "Check:probe counts the unstripped selector of this iteration", call.Pos(), "count(selector.String())", "the instant probe is not `count(<the loop's selector>.String())` (e.g. it probes a stripped selector, so present series are reported missing)")
	as, isAs := pm[call].(*ast.AssignStmt)
	if !isAs || len(as.Lhs) != 2 {
		c.Undecided("C16-R1", "Check:probe binds (count, err)", call.Pos(), "unexpected statement shape")
		return
	}
	countObj, errObj := objOf(info, as.Lhs[0]), objOf(info, as.Lhs[1])
	head := fl.loopHead(loop)
	lits := fl.Find(func(n ast.Node) bool {
		cl, ok := n.(*ast.CompositeLit)
		return ok && typeQName(info.TypeOf(cl)) == "internal/checks.Problem" && cl.Pos() > call.End()
	})
	nChecked := 0
	for _, l := range lits {
		target := l.Site
		// reachable within the iteration at all?
		if !reachWithin(fl, probes[0].Site.After(), target, head) {
			continue
		}
		nChecked++
		reach, _ := fl.Reach(probes[0].Site.After(), func(s Site) bool { return s == target }, false, PathQ{
			AvoidBlock: func(b *cfg.Block) bool { return b == head },
			Cut: func(atoms []Atom) bool {
				for _, a := range atoms {
					if a.Tag != nil {
						continue
					}
					if be, ok := ast.Unparen(a.E).(*ast.BinaryExpr); ok && objOf(info, be.X) == countObj {
						if k, isC := constInt(info, be.Y); isC && k == 0 {
							empty := (be.Op == token.GTR && !a.Truth) || (be.Op == token.EQL && a.Truth) || (be.Op == token.LEQ && a.Truth) || (be.Op == token.NEQ && !a.Truth)
							if empty {
								return true
							}
						}
					}
				}
				return false
			},
		})
		c.Check(!reach, "C16-R1", "Check:problem after the probe requires count == 0", l.Inner.Pos(), "dominated by the empty probe", "a promql/series problem can be built in the iteration although the instant probe returned series (count > 0)")
		// paths on which the probe failed: start from the err != nil successor of every test of the
		// probe's err that is reachable before err is assigned again; no further cuts (later tests of
		// the re-used err variable belong to other calls)
		reachErr := false
		nTests := 0
		reassigns := func(n ast.Node) bool {
			as2, ok := n.(*ast.AssignStmt)
			if !ok || as2 == as {
				return false
			}
			for _, l2 := range as2.Lhs {
				if objOf(info, l2) == errObj {
					return true
				}
			}
			return false
		}
		for _, b := range fl.G.Blocks {
			cond, _, ok := fl.condOf(b)
			if !ok {
				continue
			}
			for k := 0; k < 2; k++ {
				failed := false
				for _, a := range implied(cond, nil, k == 0) {
					if x, isNil, ok := nilAtom(info, a); ok && !isNil && objOf(info, x) == errObj {
						failed = true
					}
				}
				if !failed {
					continue
				}
				condSite := Site{b, len(b.Nodes) - 1}
				if r, _ := fl.Reach(probes[0].Site.After(), func(s Site) bool { return s == condSite }, false, PathQ{Avoid: reassigns, AvoidBlock: func(x *cfg.Block) bool { return x == head }}); !r {
					continue
				}
				nTests++
				if r, _ := fl.Reach(Site{b.Succs[k], 0}, func(s Site) bool { return s == target }, false, PathQ{AvoidBlock: func(x *cfg.Block) bool { return x == head }}); r {
					reachErr = true
				}
			}
		}
		if nTests == 0 {
			reachErr = true
		}
		c.Check(!reachErr, "C16-R1", "Check:problem after the probe requires a successful probe", l.Inner.Pos(), "dominated by err == nil", "a promql/series problem can be built although the instant probe failed")
	}
	c.Check(nChecked >= 5, "C16-R1", "Check:problem sites after the probe enumerated", chk.Decl.Pos(), itoa(nChecked)+" Problem literal(s)", "fewer than five problem sites after the probe ("+itoa(nChecked)+")")
	// instantSeriesCount sums values of prom.Query(ctx, query)
	if isc := c.MustFunc("C16-R1", "internal/checks.SeriesCheck.instantSeriesCount"); isc != nil {
		iinfo := isc.Pkg.TypesInfo
		sig := isc.Obj.Type().(*types.Signature)
		q := sig.Params().At(paramIndex(sig, "query"))
		okQ, okSum := false, false
		ast.Inspect(isc.Decl.Body, func(n ast.Node) bool {
			if call, ok := n.(*ast.CallExpr); ok && isCallTo(iinfo, call, "internal/promapi.FailoverGroup.Query") && len(call.Args) == 2 && objOf(iinfo, call.Args[1]) == q {
				okQ = true
			}
			if as, ok := n.(*ast.AssignStmt); ok && as.Tok == token.ADD_ASSIGN {
				okSum = true
			}
			return true
		})
		c.Check(okQ && okSum, "C16-R1", "instantSeriesCount:sums the samples of an instant query for its argument", isc.Decl.Pos(), "Query(ctx, query); series += value", "instantSeriesCount no longer sums the result of an instant query for the given expression")
	}
	// ---- R3: structural clauses of the second half (who counts as a producer; which selectors are probed; cache lifetime) ----
	c.Rule("C16-R4", "the check is switched off for a server only by a disable that names it (isEnabled evaluated, shared with C08-R6)", 30)
	defer c08IsEnabledSemanticsR(c, "C16-R4")
	defer c16EveryCleanUpLooksAtEveryEntry(c, "C16-R3")
	c.Rule("C16-R3", "producer lookups are kind-aware; per-source fallback exemption; cached answers expire as stored", 5)
	defer c16SelectorCopy(c)
	defer c16FallbackScope(c)
	defer c16MatcherOnOwnLabel(c)
	defer c16KeyIsTheText(c, "C16-R3")
	defer c16JoinsOnlyGrow(c, "C16-R1")
	defer c16OneCachePerGroup(c, "C16-R3")
	defer c14HashIsADigest(c, "C16-R3")
	defer c16AlertMetricNames(c, chk)
	// (a) pointers to a providing entry are set only under a kind-specific, error-free, name-equality guard
	pmC := parentMap(chk.Decl.Body)
	nProd := 0
	ast.Inspect(chk.Decl.Body, func(n ast.Node) bool {
		as, ok := n.(*ast.AssignStmt)
		if !ok || len(as.Lhs) != 1 || len(as.Rhs) != 1 {
			return true
		}
		u, ok := as.Rhs[0].(*ast.UnaryExpr)
		if !ok || u.Op != token.AND || typeQName(info.TypeOf(u.X)) != "internal/discovery.Entry" {
			return true
		}
		nProd++
		guards := lexicalGuards(pmC, as, chk.Decl.Body)
		kind := ""
		nameEq, errFree := false, false
		for _, g := range guards {
			if x, isNil, ok := nilAtom(info, g); ok {
				if !isNil && fieldSel(info, x, "internal/parser.Rule", "RecordingRule") {
					kind = "recording"
				}
				if !isNil && fieldSel(info, x, "internal/parser.Rule", "AlertingRule") {
					kind = "alerting"
				}
				if isNil && fieldSel(info, x, "internal/parser.ParseError", "Err") {
					errFree = true
				}
			}
			if be, ok := ast.Unparen(g.E).(*ast.BinaryExpr); ok && g.Truth && be.Op == token.EQL {
				for _, side := range []ast.Expr{be.X, be.Y} {
					ls := exprStr(side)
					if strings.HasSuffix(ls, ".RecordingRule.Record.Value") || strings.HasSuffix(ls, ".AlertingRule.Alert.Value") {
						nameEq = true
					}
				}
			}
		}
		c.Check(kind != "" && nameEq && errFree, "C16-R3", "Check:"+exprStr(as.Lhs[0])+" names a producing rule of the right kind", as.Pos(), kind+" rule, error-free, name equality",
			"a rule is accepted as the producer of a metric without requiring the right rule kind (recording rule for a metric, alerting rule for ALERTS), an error-free rule and name equality: e.g. an alert named like a metric hides a never-present series")
		return true
	})
	c.Check(nProd >= 2, "C16-R3", "Check:producer lookups enumerated", chk.Decl.Pos(), itoa(nProd), "fewer than two producer lookups")
	// (b) which join selectors are probed is decided per source
	if gs := c.MustFunc("C16-R3", "internal/checks.getNonFallbackSelectors"); gs != nil {
		ginfo := gs.Pkg.TypesInfo
		pmG := parentMap(gs.Decl.Body)
		var outer *ast.RangeStmt
		ast.Inspect(gs.Decl.Body, func(n ast.Node) bool {
			if rs, ok := n.(*ast.RangeStmt); ok && outer == nil {
				outer = rs
			}
			return true
		})
		okAll, nApp := outer != nil, 0
		if outer != nil {
			lv, _ := outer.Value.(*ast.Ident)
			ast.Inspect(outer.Body, func(n ast.Node) bool {
				as, ok := n.(*ast.AssignStmt)
				if !ok || len(as.Rhs) != 1 {
					return true
				}
				call, ok := as.Rhs[0].(*ast.CallExpr)
				if !ok || exprStr(call.Fun) != "append" {
					return true
				}
				// appends of join selectors: the argument reads Source.Selector through a Join's Src
				viaJoin := false
				ast.Inspect(call, func(m ast.Node) bool {
					if sel, ok := m.(*ast.SelectorExpr); ok && fieldSel(ginfo, sel, "internal/parser/utils.Source", "Selector") && fieldSel(ginfo, sel.X, "internal/parser/utils.Join", "Src") {
						viaJoin = true
					}
					return true
				})
				if !viaJoin {
					return true
				}
				isOwnJoins := func(e ast.Expr) bool {
					sel, ok := ast.Unparen(e).(*ast.SelectorExpr)
					return ok && lv != nil && fieldSel(ginfo, sel, "internal/parser/utils.Source", "Joins") && isObj(ginfo, sel.X, ginfo.Defs[lv])
				}
				inJoins := false
				for cur := pmG[as]; cur != nil && cur != ast.Node(outer); cur = pmG[cur] {
					if rs, ok := cur.(*ast.RangeStmt); ok && isOwnJoins(rs.X) {
						inJoins = true
					}
				}
				if !inJoins {
					return true
				}
				nApp++
				dep := false
				for _, g := range lexicalGuards(pmG, as, outer) {
					ast.Inspect(g.E, func(m ast.Node) bool {
						if id, ok := m.(*ast.Ident); ok && lv != nil && ginfo.Uses[id] == ginfo.Defs[lv] {
							if call, isCall := pmG[pmG[id]].(*ast.CallExpr); isCall || true {
								_ = call
								dep = true
							}
						}
						return true
					})
				}
				// the guard must be about the source's joins, not only the join's own selector nil test
				perSource := false
				for _, g := range lexicalGuards(pmG, as, outer) {
					// a predicate over this source's own joins (today: !joinHasFallback(ls.Joins))
					ast.Inspect(g.E, func(m ast.Node) bool {
						if cl, ok := m.(*ast.CallExpr); ok {
							for _, a := range cl.Args {
								if isOwnJoins(a) {
									perSource = true
								}
							}
						}
						return true
					})
				}
				if !dep || !perSource {
					okAll = false
				}
				return true
			})
		}
		c.Check(okAll && nApp >= 1, "C16-R3", "getNonFallbackSelectors:join fallback exemption decided per source", gs.Decl.Pos(), "guard depends on the iterated source's joins", "whether the join selectors of a source are probed no longer depends on that source's own joins: a fallback in one `or` branch exempts the joins of every other branch")
	}
	// (c) a cached answer's expiry is fixed when it is stored
	cacheExpiryWriters(c, "C16-R3")

	// ---- R2 ----
	apiErrorDiscipline(c, "C16-R2", func(file string) bool { return file == "promql_series.go" })
}

// cacheExpiryWriters: cacheEntry.expiresAt is written only by queryCache.set
// (a lookup must not extend the lifetime of an answer).
func cacheExpiryWriters(c *Ctx, rule string) {
	p := c.P
	n := 0
	for _, fi := range p.AllFuncs() {
		if fi.Decl.Body == nil || p.IsTestFile(fi.Decl.Pos()) {
			continue
		}
		info := fi.Pkg.TypesInfo
		ast.Inspect(fi.Decl.Body, func(nd ast.Node) bool {
			as, ok := nd.(*ast.AssignStmt)
			if !ok {
				return true
			}
			for _, l := range as.Lhs {
				if sel, ok := ast.Unparen(l).(*ast.SelectorExpr); ok && sel.Sel.Name == "expiresAt" && fieldOwner(info, sel) == "internal/promapi.cacheEntry" {
					n++
					c.Check(fi.Name == "internal/promapi.queryCache.set", rule, "store cacheEntry.expiresAt in "+fi.Name, as.Pos(), "expiry fixed at store time", "the expiry of a cached answer is rewritten in "+fi.Name+": answers can outlive (or fall short of) the lifetime they were stored with")
				}
			}
			return true
		})
	}
	c.Check(n >= 1, rule, "cacheEntry.expiresAt writers enumerated", 0, itoa(n)+" store(s)", "no store to cacheEntry.expiresAt found")
}

// c16SelectorCopy: the selector pint probes for is the rule's selector minus
// its offset — nothing else. selectorWithoutOffset returns a whole-struct copy
// of its argument and then resets only Offset / OriginalOffset; a literal that
// lists fields by hand must carry every exported field of the vendored
// VectorSelector except those two (and the evaluator's scratch fields), or
// modifiers such as `@ <ts>` are silently dropped from the probe.
func c16SelectorCopy(c *Ctx) {
	p := c.P
	fi := c.MustFunc("C16-R1", "internal/checks.selectorWithoutOffset")
	if fi == nil {
		return
	}
	info := fi.Pkg.TypesInfo
	param := paramObj(fi, 0)
	resetOK := map[string]bool{"Offset": true, "OriginalOffset": true}
	scratch := map[string]bool{"Series": true, "UnexpandedSeriesSet": true}
	wholeCopy := false
	var copyObj types.Object
	badStore := ""
	ast.Inspect(fi.Decl.Body, func(n ast.Node) bool {
		as, ok := n.(*ast.AssignStmt)
		if !ok || len(as.Lhs) != 1 || len(as.Rhs) != 1 {
			return true
		}
		// *s = *vs   or   s := *vs
		if r, ok := ast.Unparen(as.Rhs[0]).(*ast.StarExpr); ok && isObj(info, r.X, param) {
			wholeCopy = true
			switch l := ast.Unparen(as.Lhs[0]).(type) {
			case *ast.StarExpr:
				copyObj = objOf(info, l.X)
			case *ast.Ident:
				copyObj = objOf(info, l)
			}
		}
		if sel, ok := as.Lhs[0].(*ast.SelectorExpr); ok && typeQName(info.TypeOf(sel.X)) == promParserPath+".VectorSelector" {
			if !resetOK[sel.Sel.Name] {
				badStore = sel.Sel.Name
			}
		}
		return true
	})
	missing := ""
	lits := compositeLits(info, fi.Decl.Body, promParserPath+".VectorSelector")
	for _, cl := range lits {
		if len(cl.Elts) == 0 {
			continue // the empty literal that receives the whole-struct copy
		}
		tn := p.LookupType(promParserPath, "VectorSelector")
		if tn == nil {
			continue
		}
		st := tn.Type().Underlying().(*types.Struct)
		for i := 0; i < st.NumFields(); i++ {
			f := st.Field(i)
			if !f.Exported() || resetOK[f.Name()] || scratch[f.Name()] {
				continue
			}
			if litField(cl, f.Name()) == nil {
				missing += f.Name() + " "
			}
		}
		wholeCopy = wholeCopy || missing == ""
	}
	_ = copyObj
	c.Check(wholeCopy && badStore == "" && missing == "", "C16-R1", "selectorWithoutOffset:copies the whole selector and resets only the offset", fi.Decl.Pos(), "whole-struct copy, Offset/OriginalOffset reset",
		"the selector used for the presence probe is not the rule's selector minus its offset (fields dropped: "+strings.TrimSpace(missing)+"; other field written: "+badStore+"): e.g. `foo @ <ts> offset 5m` is probed as plain `foo`, so the verdict disagrees with what the server holds at that timestamp")
}

// c16FallbackScope: whether a result branch's own selector is exempt from the
// probe is decided by the result branches themselves (is one of them a
// guaranteed fallback such as `or vector(1)`); a fallback that only exists on
// the joined / unless side of a branch says nothing about the branch's selector.
func c16FallbackScope(c *Ctx) {
	fi := c.MustFunc("C16-R3", "internal/checks.sourceHasFallback")
	if fi == nil {
		return
	}
	bad := ""
	// the function itself and every module function it calls (helpers on Source included)
	seen := map[*FuncInfo]bool{}
	work := []*FuncInfo{fi}
	for len(work) > 0 {
		cur := work[len(work)-1]
		work = work[:len(work)-1]
		if seen[cur] || cur.Decl.Body == nil {
			continue
		}
		seen[cur] = true
		info := cur.Pkg.TypesInfo
		ast.Inspect(cur.Decl.Body, func(n ast.Node) bool {
			switch x := n.(type) {
			case *ast.SelectorExpr:
				if fieldSel(info, x, "internal/parser/utils.Source", "Joins") || fieldSel(info, x, "internal/parser/utils.Source", "Unless") {
					bad = x.Sel.Name + " in " + cur.Obj.Name()
				}
			case *ast.CallExpr:
				if isCallTo(info, x, "internal/parser/utils.Source.WalkSources") && bad == "" {
					bad = "WalkSources in " + cur.Obj.Name()
				}
				if fn := Callee(info, x); fn != nil {
					if cf := c.P.FuncOf(fn); cf != nil {
						work = append(work, cf)
					}
				}
			}
			return true
		})
	}
	c.Check(bad == "", "C16-R3", "sourceHasFallback:looks at the result branches only", fi.Decl.Pos(), "no descent into joins / unless",
		"the main-selector exemption descends into nested sources ("+bad+"): a fallback on the join side (`m * on() group_left() (w or vector(1))`) exempts `m` itself from the probe, so a never-present `m` is not reported")
}

// c16MatcherOnOwnLabel: a label matcher is applied to the value of the label it
// names. Every `m.Matches(l.Value)` on a labels.Label l in internal/checks is
// conjoined with `m.Name == l.Name`.
func c16MatcherOnOwnLabel(c *Ctx) {
	p := c.P
	n := 0
	for _, fi := range p.AllFuncs() {
		if fi.Decl.Body == nil || p.IsTestFile(fi.Decl.Pos()) || relPkg(fi.Pkg.PkgPath) != "internal/checks" {
			continue
		}
		info := fi.Pkg.TypesInfo
		pm := parentMap(fi.Decl.Body)
		ast.Inspect(fi.Decl.Body, func(nd ast.Node) bool {
			call, ok := nd.(*ast.CallExpr)
			if !ok || len(call.Args) != 1 {
				return true
			}
			sel, ok := call.Fun.(*ast.SelectorExpr)
			if !ok || sel.Sel.Name != "Matches" || !strings.HasSuffix(typeQName(info.TypeOf(sel.X)), "model/labels.Matcher") {
				return true
			}
			arg, ok := ast.Unparen(call.Args[0]).(*ast.SelectorExpr)
			if !ok || arg.Sel.Name != "Value" || !strings.HasSuffix(typeQName(info.TypeOf(arg.X)), "model/labels.Label") {
				return true
			}
			n++
			// facts known at the call: enclosing ifs + short-circuit operands on the way
			atoms := lexicalGuards(pm, call, fi.Decl.Body)
			for cur := pm[ast.Node(call)]; cur != nil; cur = pm[cur] {
				if _, isStmt := cur.(ast.Stmt); isStmt {
					break
				}
				if be, ok := cur.(*ast.BinaryExpr); ok && (be.Op == token.LAND || be.Op == token.LOR) {
					atoms = append(atoms, WithinExprAtoms(be, call)...)
				}
			}
			named := false
			for _, a := range atoms {
				be, ok := ast.Unparen(a.E).(*ast.BinaryExpr)
				if !ok || !a.Truth || be.Op != token.EQL {
					continue
				}
				isName := func(e ast.Expr, of ast.Expr) bool {
					s, ok := ast.Unparen(e).(*ast.SelectorExpr)
					return ok && s.Sel.Name == "Name" && sameExpr(info, s.X, of)
				}
				if (isName(be.X, sel.X) && isName(be.Y, arg.X)) || (isName(be.Y, sel.X) && isName(be.X, arg.X)) {
					named = true
				}
			}
			c.Check(named, "C16-R3", fi.Name+":matcher applied to the label it names #"+itoa(n), call.Pos(), "guarded by m.Name == l.Name",
				"`"+roleStr(info, call)+"` tests a matcher against the value of a label without requiring the label to be the one the matcher names: a series that happens to carry the value on another label counts as matching (a configured matcher on job=pushgateway is satisfied by instance=pushgateway)")
			return true
		})
	}
	c.Check(n >= 1, "C16-R3", "matcher applications on label values enumerated", token.NoPos, itoa(n), "none found")
}

// c16ProbesWithoutOffset: every selector getNonFallbackSelectors hands to the
// probes went through selectorWithoutOffset. `count(foo offset 1d)` asks about
// yesterday; a metric that exists now but did not a day ago would be reported
// as missing while an instant query for the selector returns series.
func c16ProbesWithoutOffset(c *Ctx) {
	gs := c.MustFunc("C16-R1", "internal/checks.getNonFallbackSelectors")
	if gs == nil {
		return
	}
	info := gs.Pkg.TypesInfo
	sig := gs.Obj.Type().(*types.Signature)
	if sig.Results().Len() != 1 {
		return
	}
	res := sig.Results().At(0)
	n := 0
	ast.Inspect(gs.Decl.Body, func(nd ast.Node) bool {
		call, ok := nd.(*ast.CallExpr)
		if !ok || exprStr(call.Fun) != "append" || len(call.Args) < 2 {
			return true
		}
		if t := info.TypeOf(call.Args[0]); t == nil || !types.Identical(t, res.Type()) {
			return true
		}
		for _, a := range call.Args[1:] {
			n++
			inner, isCall := ast.Unparen(a).(*ast.CallExpr)
			ok := isCall && isCallTo(info, inner, "internal/checks.selectorWithoutOffset")
			c.Check(ok, "C16-R1", "getNonFallbackSelectors:probe selector is offset-free", a.Pos(), "selectorWithoutOffset(…)",
				"a selector is handed to the probes as `"+roleStr(info, a)+"`, not through selectorWithoutOffset: with `foo offset 1d` pint counts yesterday's series and reports the metric as missing although an instant query for it returns series now")
		}
		return true
	})
	c.Check(n >= 3, "C16-R1", "getNonFallbackSelectors:selector append sites enumerated", gs.Decl.Pos(), itoa(n), "fewer than confirmed ("+itoa(n)+")")
}

// c16KeyIsTheText: a cached answer belongs to one expression text. Every
// CacheKey method of a query type that carries the expression (`expr` field)
// hashes that field as it is — not a rendering of it (String(), trimmed,
// lower-cased, white space collapsed). Two selectors that differ only inside a
// quoted label value otherwise share one cached count, and a series that is
// there inherits the "0 series" of one that never was.
func c16KeyIsTheText(c *Ctx, R string) {
	prom := c.P.Pkg("internal/promapi")
	if prom == nil {
		return
	}
	info := prom.TypesInfo
	n := 0
	for _, fi := range c.P.AllFuncs() {
		if fi.Pkg != prom || fi.Decl.Body == nil || fi.Obj.Name() != "CacheKey" || fi.Decl.Recv == nil {
			continue
		}
		sig := fi.Obj.Type().(*types.Signature)
		named := namedOf(sig.Recv().Type())
		if named == nil {
			continue
		}
		st, ok := named.Underlying().(*types.Struct)
		if !ok {
			continue
		}
		hasExpr := false
		for i := 0; i < st.NumFields(); i++ {
			if st.Field(i).Name() == "expr" {
				hasExpr = true
			}
		}
		if !hasExpr {
			continue
		}
		n++
		owner := relPkg(named.Obj().Pkg().Path()) + "." + named.Obj().Name()
		direct := false
		ast.Inspect(fi.Decl.Body, func(nd ast.Node) bool {
			call, isCall := nd.(*ast.CallExpr)
			if !isCall || !isCallTo(info, call, "internal/promapi.hash") {
				return true
			}
			for _, a := range call.Args {
				if fieldSel(info, a, owner, "expr") {
					direct = true
				}
			}
			return true
		})
		c.Check(direct, R, named.Obj().Name()+".CacheKey hashes the expression text itself", fi.Decl.Pos(), "q.expr",
			"the cache key of "+named.Obj().Name()+" is not computed from the `expr` field as it is (a rendering of it, or nothing, is hashed): two different expressions can share one cached answer, so a selector whose series exist is answered with the empty result of another one and reported as missing (or the other way round)")
	}
	c.Check(n >= 2, R, "CacheKey methods of expression queries enumerated", token.NoPos, itoa(n), "fewer than 2 query types with an expr field")
}

// c16AlertMetricNames: the shortcut for alert metrics (no query, producers are
// alerting rules) is taken for the two metric names Prometheus itself writes,
// compared by equality. In SeriesCheck.Check the selector's metric name is
// only ever compared with `==`/`!=`; a prefix, suffix, substring or
// case-insensitive test on it lets an ordinary metric (ALERTS_dropped_total)
// into the shortcut, and a series that never existed is not reported.
func c16AlertMetricNames(c *Ctx, chk *FuncInfo) {
	R := "C16-R1"
	if chk == nil {
		return
	}
	info := chk.Pkg.TypesInfo
	// variables that hold the metric name
	names := map[types.Object]bool{}
	ast.Inspect(chk.Decl.Body, func(nd ast.Node) bool {
		if as, ok := nd.(*ast.AssignStmt); ok && len(as.Lhs) == len(as.Rhs) {
			for i, r := range as.Rhs {
				if sel, isSel := ast.Unparen(r).(*ast.SelectorExpr); isSel && sel.Sel.Name == "Name" && strings.HasSuffix(fieldOwner(info, sel), "parser.VectorSelector") {
					if o := objOf(info, as.Lhs[i]); o != nil {
						names[o] = true
					}
				}
			}
		}
		return true
	})
	isName := func(e ast.Expr) bool {
		e = ast.Unparen(e)
		if o := objOf(info, e); o != nil && names[o] {
			return true
		}
		if sel, isSel := e.(*ast.SelectorExpr); isSel && sel.Sel.Name == "Name" && strings.HasSuffix(fieldOwner(info, sel), "parser.VectorSelector") {
			return true
		}
		return false
	}
	nEq, bad := 0, ""
	badPos := chk.Decl.Pos()
	ast.Inspect(chk.Decl.Body, func(nd ast.Node) bool {
		switch x := nd.(type) {
		case *ast.BinaryExpr:
			if (x.Op == token.EQL || x.Op == token.NEQ) && (isName(x.X) || isName(x.Y)) {
				nEq++
			}
		case *ast.CallExpr:
			fn := Callee(info, x)
			if fn == nil || fn.Pkg() == nil {
				return true
			}
			if pth := fn.Pkg().Path(); pth != "strings" && pth != "regexp" && pth != "path" && pth != "path/filepath" {
				return true
			}
			for _, a := range x.Args {
				if isName(a) {
					bad, badPos = exprStr(x), x.Pos()
				}
			}
		}
		return true
	})
	c.Check(bad == "" && nEq >= 2, R, "Check:the metric name is only compared by equality", badPos, itoa(nEq)+" equality tests",
		"the selector's metric name is tested with `"+bad+"` (or is no longer compared with the alert metric names at all): a metric that merely resembles ALERTS / ALERTS_FOR_STATE takes the alert shortcut and is never looked up, so a series that was never present is not reported")
}

// c16JoinsOnlyGrow: every vector the query joins with is probed by promql/series
// because it is listed in Source.Joins / Source.Unless of the source it is
// joined to. Those lists only grow: every store is `x.Joins = append(x.Joins, …)`
// (the same for Unless). A store of a freshly built list drops what the operand
// already carried — the selectors of a nested join on that side are then never
// probed, and a metric that never existed there goes unreported.
func c16JoinsOnlyGrow(c *Ctx, R string) {
	up := c.P.Pkg("internal/parser/utils")
	if up == nil {
		return
	}
	info := up.TypesInfo
	n := 0
	for _, fi := range c.P.AllFuncs() {
		if fi.Pkg != up || fi.Decl.Body == nil || c.P.IsTestFile(fi.Decl.Pos()) {
			continue
		}
		seq := 0
		ast.Inspect(fi.Decl.Body, func(nd ast.Node) bool {
			as, ok := nd.(*ast.AssignStmt)
			if !ok || len(as.Lhs) != len(as.Rhs) {
				return true
			}
			for i, l := range as.Lhs {
				sel, isSel := ast.Unparen(l).(*ast.SelectorExpr)
				if !isSel || fieldOwner(info, sel) != qSource || (sel.Sel.Name != "Joins" && sel.Sel.Name != "Unless") {
					continue
				}
				n++
				seq++
				grows := false
				if call, isCall := ast.Unparen(as.Rhs[i]).(*ast.CallExpr); isCall && exprStr(call.Fun) == "append" && len(call.Args) >= 1 && samePath(info, call.Args[0], sel) {
					grows = true
				}
				// through a local that starts as the list itself and is only appended to
				if id, isID := ast.Unparen(as.Rhs[i]).(*ast.Ident); isID {
					defs := allDefs(info, fi.Decl.Body, id)
					grows = len(defs) > 0
					startsAsField := false
					for _, d := range defs {
						switch {
						case samePath(info, d, sel):
							startsAsField = true
						default:
							call, isCall := ast.Unparen(d).(*ast.CallExpr)
							if !isCall || exprStr(call.Fun) != "append" || len(call.Args) < 1 || (objOf(info, call.Args[0]) != info.Uses[id] && !samePath(info, call.Args[0], sel)) {
								grows = false
							}
							if isCall && len(call.Args) >= 1 && samePath(info, call.Args[0], sel) {
								startsAsField = true
							}
						}
					}
					grows = grows && startsAsField
				}
				c.Check(grows, R, fi.Obj.Name()+":"+sel.Sel.Name+" only grows#"+itoa(seq), as.Pos(), "append to itself",
					"`"+exprStr(l)+"` is replaced by `"+exprStr(as.Rhs[i])+"` instead of being appended to: joins the operand already carried (a nested binary operation on that side) are dropped, their selectors are never probed and a metric that was never present there is not reported")
			}
			return true
		})
	}
	c.Check(n >= 4, R, "stores to Source.Joins / Source.Unless enumerated", token.NoPos, itoa(n), "fewer than 4")
}

// c16OneCachePerGroup: cached answers belong to one failover group — one set of
// request headers, one tenant. What FailoverGroup.StartWorkers hands to its
// upstreams as Prometheus.cache is a cache made right there by newQueryCache; a
// cache that comes from anywhere else (another group "talking to the same
// URI") serves one tenant's series counts to another, and a series that is
// present is reported missing (or the reverse).
func c16OneCachePerGroup(c *Ctx, R string) {
	prom := c.P.Pkg("internal/promapi")
	if prom == nil {
		return
	}
	info := prom.TypesInfo
	n := 0
	for _, fi := range c.P.AllFuncs() {
		if fi.Pkg != prom || fi.Decl.Body == nil || c.P.IsTestFile(fi.Decl.Pos()) {
			continue
		}
		ast.Inspect(fi.Decl.Body, func(nd ast.Node) bool {
			as, ok := nd.(*ast.AssignStmt)
			if !ok || len(as.Lhs) != len(as.Rhs) {
				return true
			}
			for i, l := range as.Lhs {
				if !fieldSel(info, l, "internal/promapi.Prometheus", "cache") {
					continue
				}
				n++
				fresh := func(e ast.Expr) bool {
					call, isCall := ast.Unparen(e).(*ast.CallExpr)
					return isCall && isCallTo(info, call, "internal/promapi.newQueryCache")
				}
				okStore := fresh(as.Rhs[i])
				if id, isID := ast.Unparen(as.Rhs[i]).(*ast.Ident); isID {
					defs := allDefs(info, fi.Decl.Body, id)
					okStore = len(defs) > 0
					for _, d := range defs {
						if !fresh(d) {
							okStore = false
						}
					}
				}
				c.Check(okStore, R, strings.TrimPrefix(fi.Name, "internal/promapi.")+":upstreams get the cache made for their own group", as.Pos(), "newQueryCache(…) of this call",
					"Prometheus.cache is filled with `"+exprStr(as.Rhs[i])+"`, which is not (only) a cache created here for this group: groups that differ in headers, tenant or tags then answer each other's questions from one cache")
			}
			return true
		})
	}
	c.Check(n >= 1, R, "stores to Prometheus.cache enumerated", token.NoPos, itoa(n), "none found")
}

// c16EveryCleanUpLooksAtEveryEntry: a cached answer is handed out until the clean-up removes it (get() does
// not look at the expiry time). Every run of queryCache.gc therefore reaches the walk over the entries: no
// path from its entry leaves the function without it ("nothing happened since last time, skip" keeps an
// answer whose lifetime ran out during the idle period, and the next lint run judges series by it).
func c16EveryCleanUpLooksAtEveryEntry(c *Ctx, R string) {
	gc := c.MustFunc(R, "internal/promapi.queryCache.gc")
	if gc == nil {
		return
	}
	info := gc.Pkg.TypesInfo
	fl := c.P.NewFlow(gc)
	isWalk := func(n ast.Node) bool {
		rs, ok := n.(*ast.RangeStmt)
		return ok && fieldSel(info, rs.X, "internal/promapi.queryCache", "entries")
	}
	var walk *ast.RangeStmt
	ast.Inspect(gc.Decl.Body, func(n ast.Node) bool {
		if isWalk(n) {
			walk = n.(*ast.RangeStmt)
		}
		return true
	})
	if walk == nil {
		c.Undecided(R, "queryCache.gc:walk over the entries", gc.Decl.Pos(), "no `range c.entries` found")
		return
	}
	// structural form of must-pass: the walk is a statement of the function body itself and no return stands before it
	top := false
	for _, st := range gc.Decl.Body.List {
		if st == ast.Stmt(walk) {
			top = true
		}
	}
	early := ""
	inspectNoLit(gc.Decl.Body, func(n ast.Node) bool {
		if r, ok := n.(*ast.ReturnStmt); ok && r.Pos() < walk.Pos() {
			early = c.P.Pos(r.Pos())
		}
		return true
	})
	_ = fl
	c.Check(top && early == "", R, "queryCache.gc:every clean-up walks every entry", walk.Pos(), "unconditional",
		"the clean-up can end before it looked at the entries (return at "+early+", or the walk stands under a condition): an answer whose lifetime ran out stays in the cache and is handed out by get(), which does not look at the expiry time")
}
