package main

import (
	"go/ast"
	"go/token"
	"go/types"

	"golang.org/x/tools/go/cfg"
)

func init() {
	register("C16", runC16,
		"Decides the first clause only — promql/series never reports a selector as missing while an instant query for it returns series: (R1) in SeriesCheck.Check the probe instantSeriesCount(count(<selector of this iteration, unstripped>)) is made in the selector loop and every Problem literal reachable after it within the same iteration is dominated by the `count > 0` false edge and by err == nil; instantSeriesCount sums the sample values of the instant query it was given; (R2) the error discipline of C15-R4 at every Prometheus API call in promql_series.go (an outage is never turned into a finding, a nil result never dereferenced).",
		"the second clause (Bug when the metric was never present and no rule produces it) depends on range data, gap detection and comment/config exemptions and is not decided.")
}

func runC16(c *Ctx) {
	p := c.P
	c.Rule("C16-R1", "missing-series problems are dominated by an empty instant probe of the unstripped selector", 5)
	c.Rule("C16-R2", "API error discipline in promql_series.go", 20)
	chk := c.MustFunc("C16-R1", "internal/checks.SeriesCheck.Check")
	if chk == nil {
		return
	}
	info := chk.Pkg.TypesInfo
	fl := p.NewFlow(chk)
	probes := fl.FindCalls("internal/checks.SeriesCheck.instantSeriesCount")
	c.Check(len(probes) == 1, "C16-R1", "Check:one instant probe", chk.Decl.Pos(), "one", itoa(len(probes))+" instantSeriesCount calls")
	if len(probes) != 1 {
		return
	}
	call := probes[0].Inner.(*ast.CallExpr)
	pm := parentMap(chk.Decl.Body)
	var loop *ast.RangeStmt
	for cur := pm[call]; cur != nil; cur = pm[cur] {
		if rs, ok := cur.(*ast.RangeStmt); ok {
			loop = rs
		}
	}
	// outermost enclosing loop is the selector loop
	if loop == nil {
		c.Bad("C16-R1", "Check:probe inside the selector loop", call.Pos(), "the instant probe is not inside a loop over selectors")
		return
	}
	selV, _ := loop.Value.(*ast.Ident)
	// argument: fmt.Sprintf("count(%s)", selector.String())
	okArg := false
	if len(call.Args) == 2 && selV != nil {
		if sp, ok := call.Args[1].(*ast.CallExpr); ok && len(sp.Args) == 2 {
			f, _ := constString(info, sp.Args[0])
			if inner, ok := sp.Args[1].(*ast.CallExpr); ok {
				if sel, ok := inner.Fun.(*ast.SelectorExpr); ok && sel.Sel.Name == "String" && objOf(info, sel.X) == info.Defs[selV] && f == "count(%s)" {
					okArg = true
				}
			}
		}
	}
	c.Check(okArg, "C16-R1", "Check:probe counts the unstripped selector of this iteration", call.Pos(), "count(selector.String())", "the instant probe is not `count(<the loop's selector>.String())` (e.g. it probes a stripped selector, so present series are reported missing)")
	as, isAs := pm[call].(*ast.AssignStmt)
	if !isAs || len(as.Lhs) != 2 {
		c.Undecided("C16-R1", "Check:probe binds (count, err)", call.Pos(), "unexpected statement shape")
		return
	}
	countObj, errObj := objOf(info, as.Lhs[0]), objOf(info, as.Lhs[1])
	head := fl.loopHead(loop)
	lits := fl.Find(func(n ast.Node) bool {
		cl, ok := n.(*ast.CompositeLit)
		return ok && typeQName(info.TypeOf(cl)) == "internal/checks.Problem" && cl.Pos() > call.End()
	})
	nChecked := 0
	for _, l := range lits {
		target := l.Site
		// reachable within the iteration at all?
		if !reachWithin(fl, probes[0].Site.After(), target, head) {
			continue
		}
		nChecked++
		reach, _ := fl.Reach(probes[0].Site.After(), func(s Site) bool { return s == target }, false, PathQ{
			AvoidBlock: func(b *cfg.Block) bool { return b == head },
			Cut: func(atoms []Atom) bool {
				for _, a := range atoms {
					if a.Tag != nil {
						continue
					}
					if be, ok := ast.Unparen(a.E).(*ast.BinaryExpr); ok && objOf(info, be.X) == countObj {
						if k, isC := constInt(info, be.Y); isC && k == 0 {
							empty := (be.Op == token.GTR && !a.Truth) || (be.Op == token.EQL && a.Truth) || (be.Op == token.LEQ && a.Truth) || (be.Op == token.NEQ && !a.Truth)
							if empty {
								return true
							}
						}
					}
				}
				return false
			},
		})
		c.Check(!reach, "C16-R1", "Check:problem after the probe requires count == 0", l.Inner.Pos(), "dominated by the empty probe", "a promql/series problem can be built in the iteration although the instant probe returned series (count > 0)")
		// paths on which the probe failed: start from the err != nil successor of every test of the
		// probe's err that is reachable before err is assigned again; no further cuts (later tests of
		// the re-used err variable belong to other calls)
		reachErr := false
		nTests := 0
		reassigns := func(n ast.Node) bool {
			as2, ok := n.(*ast.AssignStmt)
			if !ok || as2 == as {
				return false
			}
			for _, l2 := range as2.Lhs {
				if objOf(info, l2) == errObj {
					return true
				}
			}
			return false
		}
		for _, b := range fl.G.Blocks {
			cond, _, ok := fl.condOf(b)
			if !ok {
				continue
			}
			for k := 0; k < 2; k++ {
				failed := false
				for _, a := range implied(cond, nil, k == 0) {
					if x, isNil, ok := nilAtom(info, a); ok && !isNil && objOf(info, x) == errObj {
						failed = true
					}
				}
				if !failed {
					continue
				}
				condSite := Site{b, len(b.Nodes) - 1}
				if r, _ := fl.Reach(probes[0].Site.After(), func(s Site) bool { return s == condSite }, false, PathQ{Avoid: reassigns, AvoidBlock: func(x *cfg.Block) bool { return x == head }}); !r {
					continue
				}
				nTests++
				if r, _ := fl.Reach(Site{b.Succs[k], 0}, func(s Site) bool { return s == target }, false, PathQ{AvoidBlock: func(x *cfg.Block) bool { return x == head }}); r {
					reachErr = true
				}
			}
		}
		if nTests == 0 {
			reachErr = true
		}
		c.Check(!reachErr, "C16-R1", "Check:problem after the probe requires a successful probe", l.Inner.Pos(), "dominated by err == nil", "a promql/series problem can be built although the instant probe failed")
	}
	c.Check(nChecked >= 5, "C16-R1", "Check:problem sites after the probe enumerated", chk.Decl.Pos(), itoa(nChecked)+" Problem literal(s)", "fewer than five problem sites after the probe ("+itoa(nChecked)+")")
	// instantSeriesCount sums values of prom.Query(ctx, query)
	if isc := c.MustFunc("C16-R1", "internal/checks.SeriesCheck.instantSeriesCount"); isc != nil {
		iinfo := isc.Pkg.TypesInfo
		sig := isc.Obj.Type().(*types.Signature)
		q := sig.Params().At(paramIndex(sig, "query"))
		okQ, okSum := false, false
		ast.Inspect(isc.Decl.Body, func(n ast.Node) bool {
			if call, ok := n.(*ast.CallExpr); ok && isCallTo(iinfo, call, "internal/promapi.FailoverGroup.Query") && len(call.Args) == 2 && objOf(iinfo, call.Args[1]) == q {
				okQ = true
			}
			if as, ok := n.(*ast.AssignStmt); ok && as.Tok == token.ADD_ASSIGN {
				okSum = true
			}
			return true
		})
		c.Check(okQ && okSum, "C16-R1", "instantSeriesCount:sums the samples of an instant query for its argument", isc.Decl.Pos(), "Query(ctx, query); series += value", "instantSeriesCount no longer sums the result of an instant query for the given expression")
	}
	// ---- R2 ----
	apiErrorDiscipline(c, "C16-R2", func(file string) bool { return file == "promql_series.go" })
}
