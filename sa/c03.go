package main

import (
	"fmt"
	"go/ast"
	"go/token"
	"go/types"
	"sort"
	"strings"
)

func init() {
	register("C03", runC03,
		"Decides the classification clauses that hold for every history: (R1) the IsIdentical comparison methods read every content field of AlertingRule/RecordingRule/Rule/YamlNode/YamlMap/PromQLExpr on both operands, so no field edit can be classified as unmodified; (R2) the tagless switch in GitBranchFinder.Find is read as a first-match decision table over {hasBefore, hasAfter, isIdentical, wasMoved, no parse failures}, all 32 valuations are evaluated on the guard formulas and the State constant stored / entry appended must equal the reference table of the statement; (R3) every matchedEntry literal sets hasBefore or hasAfter; (R4) stateMatches, CIStates and defaultMatchStates agree with the documented state vocabulary; (R5) the final merge copies State and ModifiedLines into the full entry list and Entry.State has no other writers.",
		"git plumbing (log/blame/ls-tree parsing, rename following), matchEntries' pairing heuristics on duplicate names, the content of ModifiedLines.")
}

// fieldReadsByRoot returns, per root object, the fields of named struct
// qtype that fi reads through that root (any depth: root.f, root.x.f …).
func fieldReadsByRoot(fi *FuncInfo, qtype string) map[types.Object]map[string]bool {
	out := map[types.Object]map[string]bool{}
	info := fi.Pkg.TypesInfo
	ast.Inspect(fi.Decl.Body, func(n ast.Node) bool {
		sel, ok := n.(*ast.SelectorExpr)
		if !ok {
			return true
		}
		s := info.Selections[sel]
		if s == nil || s.Kind() != types.FieldVal || fieldOwner(info, sel) != qtype {
			return true
		}
		root, _, ok := accessPath(info, sel)
		if !ok {
			// e.g. &b.Alert or call results: try the innermost identifier
			ast.Inspect(sel.X, func(m ast.Node) bool {
				if id, isID := m.(*ast.Ident); isID && root == nil {
					root = info.Uses[id]
				}
				return root == nil
			})
		}
		if root == nil {
			return true
		}
		if out[root] == nil {
			out[root] = map[string]bool{}
		}
		out[root][sel.Sel.Name] = true
		return true
	})
	return out
}

// recvAndParam returns the receiver object and the first parameter object.
func recvAndParam(fi *FuncInfo) (recv, param types.Object) {
	info := fi.Pkg.TypesInfo
	if fi.Decl.Recv != nil && len(fi.Decl.Recv.List) == 1 && len(fi.Decl.Recv.List[0].Names) == 1 {
		recv = info.Defs[fi.Decl.Recv.List[0].Names[0]]
	}
	if fi.Decl.Type.Params != nil && len(fi.Decl.Type.Params.List) > 0 && len(fi.Decl.Type.Params.List[0].Names) > 0 {
		param = info.Defs[fi.Decl.Type.Params.List[0].Names[0]]
	}
	return
}

// coverBinary checks that method fn on qtype reads every non-exempt field on
// both operands.
func coverBinary(c *Ctx, rule, fn, qtype string, exempt map[string]string) {
	fi := c.MustFunc(rule, fn)
	if fi == nil {
		return
	}
	parts := strings.Split(qtype, ".")
	tn := c.P.LookupType(strings.Join(parts[:len(parts)-1], "."), parts[len(parts)-1])
	if tn == nil {
		c.Undecided(rule, "anchor:type:"+qtype, fi.Decl.Pos(), "type not found")
		return
	}
	recv, param := recvAndParam(fi)
	for _, f := range structFields(tn) {
		key := fn + ":" + f
		if why, ok := exempt[f]; ok {
			c.Ok(rule, key+" (exempt)", fi.Decl.Pos(), why)
			continue
		}
		a, b := fieldInfluencesResult(fi, recv, qtype, f), fieldInfluencesResult(fi, param, qtype, f)
		c.Check(a && b, rule, key, fi.Decl.Pos(), "read on both operands and flows into the result",
			fmt.Sprintf("field %s.%s does not influence the comparison result (receiver side=%v, argument side=%v): an edit of it is classified as unmodified", qtype, f, a, b))
		if a && b {
			c.Check(fieldsMeetSymmetrically(fi, recv, param, qtype, f), rule, key+":compared symmetrically", fi.Decl.Pos(), "both sides meet in ==, !=, slices.Equal or IsIdentical (or probe each other)",
				fmt.Sprintf("field %s.%s of the two operands never meets in a symmetric comparison: the test is one-directional (an addition or a removal goes unnoticed)", qtype, f))
		}
	}
}

// taintOf computes the objects tainted (flow-insensitively) by reads of
// root.<…>.field, and returns a predicate telling whether a node mentions the
// field or a tainted object.
func taintOf(fi *FuncInfo, root types.Object, qtype, field string) func(ast.Node) bool {
	info := fi.Pkg.TypesInfo
	tainted := map[types.Object]bool{}
	mentions := func(n ast.Node) bool {
		found := false
		ast.Inspect(n, func(m ast.Node) bool {
			if found || m == nil {
				return false
			}
			switch x := m.(type) {
			case *ast.SelectorExpr:
				if x.Sel.Name == field && fieldOwner(info, x) == qtype {
					var r types.Object
					ast.Inspect(x.X, func(k ast.Node) bool {
						if id, ok := k.(*ast.Ident); ok && r == nil {
							r = info.Uses[id]
						}
						return r == nil
					})
					if r == root {
						found = true
					}
				}
			case *ast.Ident:
				if o := info.Uses[x]; o != nil && tainted[o] {
					found = true
				}
			}
			return true
		})
		return found
	}
	for changed := true; changed; {
		changed = false
		ast.Inspect(fi.Decl.Body, func(n ast.Node) bool {
			switch x := n.(type) {
			case *ast.AssignStmt:
				for i, l := range x.Lhs {
					var rhs ast.Expr
					if len(x.Rhs) == len(x.Lhs) {
						rhs = x.Rhs[i]
					} else if len(x.Rhs) == 1 {
						rhs = x.Rhs[0]
					}
					if rhs == nil || !mentions(rhs) {
						continue
					}
					if o := objOf(info, l); o != nil && !tainted[o] {
						tainted[o] = true
						changed = true
					}
				}
			case *ast.RangeStmt:
				if mentions(x.X) {
					for _, v := range []ast.Expr{x.Key, x.Value} {
						if id, ok := v.(*ast.Ident); ok {
							if o := info.Defs[id]; o != nil && !tainted[o] {
								tainted[o] = true
								changed = true
							}
						}
					}
				}
			}
			return true
		})
	}
	return mentions
}

// fieldsMeetSymmetrically: the field of both operands meets in a symmetric
// comparison (==, !=, slices.Equal/Compare, reflect.DeepEqual, an
// IsIdentical/Equal method), or each side is probed against the other.
func fieldsMeetSymmetrically(fi *FuncInfo, a, b types.Object, qtype, field string) bool {
	if a == nil || b == nil {
		return false
	}
	info := fi.Pkg.TypesInfo
	ma, mb := taintOf(fi, a, qtype, field), taintOf(fi, b, qtype, field)
	meet := false
	probeAB, probeBA := false, false
	lastLenMeet, lastOneWayProbe = false, false
	ast.Inspect(fi.Decl.Body, func(n ast.Node) bool {
		switch x := n.(type) {
		case *ast.BinaryExpr:
			if x.Op == token.EQL || x.Op == token.NEQ {
				if (ma(x.X) && mb(x.Y)) || (mb(x.X) && ma(x.Y)) {
					if isLenCall(x.X) || isLenCall(x.Y) {
						lastLenMeet = true // lengths meet, contents do not
					} else {
						meet = true
					}
				}
			}
		case *ast.CallExpr:
			fn := Callee(info, x)
			if fn == nil {
				return true
			}
			name := fn.Name()
			pkg := ""
			if fn.Pkg() != nil {
				pkg = fn.Pkg().Path()
			}
			symmetric := (pkg == "slices" && (name == "Equal" || name == "Compare" || name == "EqualFunc")) || (pkg == "reflect" && name == "DeepEqual") || (pkg == "maps" && name == "Equal") || (pkg == "bytes" && name == "Equal")
			if symmetric && len(x.Args) >= 2 {
				if (ma(x.Args[0]) && mb(x.Args[1])) || (mb(x.Args[0]) && ma(x.Args[1])) {
					meet = true
				}
			}
			if sel, ok := x.Fun.(*ast.SelectorExpr); ok && (name == "IsIdentical" || name == "Equal" || name == "IsSame") && len(x.Args) == 1 {
				if (ma(sel.X) && mb(x.Args[0])) || (mb(sel.X) && ma(x.Args[0])) {
					meet = true
				}
			}
			if pkg == "slices" && (name == "Contains" || name == "Index") && len(x.Args) == 2 {
				if ma(x.Args[0]) && mb(x.Args[1]) {
					probeBA = true
				}
				if mb(x.Args[0]) && ma(x.Args[1]) {
					probeAB = true
				}
			}
		}
		return true
	})
	lastOneWayProbe = !meet && (probeAB != probeBA)
	return meet || (probeAB && probeBA)
}

// set by fieldsMeetSymmetrically for its last call: the two sides' lengths were
// compared / containment was probed in one direction only
var lastLenMeet, lastOneWayProbe bool

func isLenCall(e ast.Expr) bool {
	call, ok := ast.Unparen(e).(*ast.CallExpr)
	if !ok || len(call.Args) != 1 {
		return false
	}
	id, ok := call.Fun.(*ast.Ident)
	return ok && (id.Name == "len" || id.Name == "cap")
}

// fieldInfluencesResult reports whether a read of root.<…>.field (field
// declared by qtype) flows — through assignments, range variables and append,
// flow-insensitively — into a return expression or into a condition that
// guards a return.
func fieldInfluencesResult(fi *FuncInfo, root types.Object, qtype, field string) bool {
	if root == nil {
		return false
	}
	info := fi.Pkg.TypesInfo
	tainted := map[types.Object]bool{}
	mentions := func(n ast.Node) bool {
		found := false
		ast.Inspect(n, func(m ast.Node) bool {
			if found {
				return false
			}
			switch x := m.(type) {
			case *ast.SelectorExpr:
				if x.Sel.Name == field && fieldOwner(info, x) == qtype {
					var r types.Object
					ast.Inspect(x.X, func(k ast.Node) bool {
						if id, ok := k.(*ast.Ident); ok && r == nil {
							r = info.Uses[id]
						}
						return r == nil
					})
					if r == root {
						found = true
					}
				}
			case *ast.Ident:
				if o := info.Uses[x]; o != nil && tainted[o] {
					found = true
				}
			case *ast.CallExpr:
				// the whole operand handed to a call carries every field
				for _, a := range x.Args {
					if id, ok := ast.Unparen(a).(*ast.Ident); ok && info.Uses[id] == root {
						found = true
					}
				}
			}
			return true
		})
		return found
	}
	for changed := true; changed; {
		changed = false
		ast.Inspect(fi.Decl.Body, func(n ast.Node) bool {
			switch x := n.(type) {
			case *ast.AssignStmt:
				for i, l := range x.Lhs {
					var rhs ast.Expr
					if len(x.Rhs) == len(x.Lhs) {
						rhs = x.Rhs[i]
					} else if len(x.Rhs) == 1 {
						rhs = x.Rhs[0]
					}
					if rhs == nil || !mentions(rhs) {
						continue
					}
					if o := objOf(info, l); o != nil && !tainted[o] {
						tainted[o] = true
						changed = true
					}
				}
			case *ast.RangeStmt:
				if mentions(x.X) {
					for _, v := range []ast.Expr{x.Key, x.Value} {
						if id, ok := v.(*ast.Ident); ok {
							if o := info.Defs[id]; o != nil && !tainted[o] {
								tainted[o] = true
								changed = true
							}
						}
					}
				}
			case *ast.ExprStmt:
				// in-place helpers: slices.Sort(x) keeps taint; nothing to add
			}
			return true
		})
	}
	influences := false
	ast.Inspect(fi.Decl.Body, func(n ast.Node) bool {
		switch x := n.(type) {
		case *ast.ReturnStmt:
			for _, r := range x.Results {
				if mentions(r) {
					influences = true
				}
			}
		case *ast.IfStmt:
			if mentions(x.Cond) && len(returnsIn(x.Body.List)) > 0 {
				influences = true
			}
		}
		return true
	})
	return influences
}

func runC03(c *Ctx) {
	defer checkParamsUsed(c, "C03-R5", "internal/discovery.NewGitBranchFinder", "internal/discovery.NewGlobFinder")
	defer c03SymlinkWalk(c, "C03-R5")
	defer checkSearchFlags(c, "C03-R2", "internal/discovery.GitBranchFinder.Find", "internal/discovery.matchEntries")
	p := c.P
	c.Rule("C03-R1", "IsIdentical methods read every content field on both operands", 17)
	c.Rule("C03-R2", "state decision table of GitBranchFinder.Find equals the reference on all 32 valuations", 32)
	c.Rule("C03-R3", "matchedEntry literals set hasBefore or hasAfter; name pairing requires same kind", 6)
	c.Rule("C03-R4", "state vocabulary tables (stateMatches, CIStates, defaultMatchStates, Match.validate)", 14)
	c.Rule("C03-R5", "merge into the full list; who may write Entry.State", 8)

	// ---- R1 ----
	coverBinary(c, "C03-R1", "internal/parser.AlertingRule.IsIdentical", "internal/parser.AlertingRule", nil)
	coverBinary(c, "C03-R1", "internal/parser.RecordingRule.IsIdentical", "internal/parser.RecordingRule", nil)
	coverBinary(c, "C03-R1", "internal/parser.Rule.IsIdentical", "internal/parser.Rule", map[string]string{
		"Lines": "position, not content: a pure line shift must stay unmodified",
		"Error": "rules with a parse error have neither rule pointer; they are matched by PathError/Type",
	})
	coverBinary(c, "C03-R1", "internal/parser.YamlNode.IsIdentical", "internal/parser.YamlNode", map[string]string{"Pos": "position, not content"})
	coverBinary(c, "C03-R1", "internal/parser.YamlMap.IsIdentical", "internal/parser.YamlMap", map[string]string{"Key": "the map's own key node is the fixed word labels/annotations"})
	coverBinary(c, "C03-R1", "internal/parser.PromQLExpr.IsIdentical", "internal/parser.PromQLExpr", map[string]string{
		"SyntaxError": "function of Value", "Query": "function of Value",
	})
	// YamlMap.IsIdentical renders key and value of every item, for both maps
	if ym := c.MustFunc("C03-R1", "internal/parser.YamlMap.IsIdentical"); ym != nil {
		info := ym.Pkg.TypesInfo
		nLoops, good := 0, 0
		ast.Inspect(ym.Decl.Body, func(n ast.Node) bool {
			rs, ok := n.(*ast.RangeStmt)
			if !ok || !fieldSel(info, rs.X, "internal/parser.YamlMap", "Items") {
				return true
			}
			nLoops++
			v, _ := rs.Value.(*ast.Ident)
			if v == nil {
				return true
			}
			kv := info.Defs[v]
			k, val := false, false
			ast.Inspect(rs.Body, func(m ast.Node) bool {
				if sel, ok := m.(*ast.SelectorExpr); ok {
					if r, _, ok := accessPath(info, sel); ok && r == kv {
						if fieldSel(info, sel, "internal/parser.YamlKeyValue", "Key") {
							k = true
						}
						if fieldSel(info, sel, "internal/parser.YamlKeyValue", "Value") {
							val = true
						}
					}
				}
				return true
			})
			if k && val {
				good++
			}
			return true
		})
		c.Check(nLoops == 2 && good == 2, "C03-R1", "YamlMap.IsIdentical:items rendered with key and value on both sides", ym.Decl.Pos(), "both loops read Key and Value", "item keys or values are no longer part of the comparison")
	}
	// the comparisons are used: isIdentical in matchEntries comes from Rule.IsIdentical
	if me := c.MustFunc("C03-R1", "internal/discovery.matchEntries"); me != nil {
		n := 0
		ast.Inspect(me.Decl.Body, func(nd ast.Node) bool {
			if call, ok := nd.(*ast.CallExpr); ok && isCallTo(me.Pkg.TypesInfo, call, "internal/parser.Rule.IsIdentical") {
				n++
			}
			return true
		})
		c.Check(n > 0, "C03-R1", "matchEntries uses Rule.IsIdentical", me.Decl.Pos(), "used", "matchEntries no longer decides identity with Rule.IsIdentical")
	}

	// isEntryIdentical: file-level disabled checks of both entries, compared symmetrically
	if iei := c.MustFunc("C03-R1", "internal/discovery.isEntryIdentical"); iei != nil {
		sig := iei.Obj.Type().(*types.Signature)
		pb, pa := types.Object(sig.Params().At(0)), types.Object(sig.Params().At(1))
		fa := fieldInfluencesResult(iei, pa, "internal/discovery.Entry", "DisabledChecks")
		fb := fieldInfluencesResult(iei, pb, "internal/discovery.Entry", "DisabledChecks")
		c.Check(fa && fb, "C03-R1", "isEntryIdentical:DisabledChecks", iei.Decl.Pos(), "both sides influence the result", "file-level disabled checks of one side no longer influence isEntryIdentical")
		if fa && fb {
			sym := fieldsMeetSymmetrically(iei, pb, pa, "internal/discovery.Entry", "DisabledChecks")
			detail := "symmetric"
			if !sym && lastLenMeet && lastOneWayProbe {
				// equal lengths + containment in one direction is a set comparison
				// exactly when neither list has duplicates: the producer must dedupe
				if c03ProducerDedupes(c.P) {
					sym, detail = true, "equal length and one-way containment over lists the producer keeps duplicate-free"
				}
			}
			c.Check(sym, "C03-R1", "isEntryIdentical:DisabledChecks:compared symmetrically", iei.Decl.Pos(), detail,
				"the disabled-check lists are not compared as sets in both directions (one-way containment, or equal length plus one-way containment over lists that may hold duplicates): replacing one file/disable comment by another can leave every rule of the file unmodified")
		}
	}
	// wasMoved is defined on the path the rule is found under (Path.Name) of both sides
	if me := c.MustFunc("C03-R1", "internal/discovery.matchEntries"); me != nil {
		minfo := me.Pkg.TypesInfo
		n, good := 0, 0
		ast.Inspect(me.Decl.Body, func(nd ast.Node) bool {
			as, ok := nd.(*ast.AssignStmt)
			if !ok || len(as.Lhs) != 1 || !fieldSel(minfo, as.Lhs[0], "internal/discovery.matchedEntry", "wasMoved") {
				return true
			}
			n++
			if be, ok := ast.Unparen(as.Rhs[0]).(*ast.BinaryExpr); ok && be.Op == token.NEQ &&
				fieldSel(minfo, be.X, "internal/discovery.Path", "Name") && fieldSel(minfo, be.Y, "internal/discovery.Path", "Name") {
				rx, _, _ := accessPath(minfo, be.X)
				ry, _, _ := accessPath(minfo, be.Y)
				if rx != ry {
					good++
				}
			}
			return true
		})
		c.Check(n >= 1 && n == good, "C03-R1", "matchEntries:wasMoved := after.Path.Name != before.Path.Name", me.Decl.Pos(), itoa(good)+" definition(s)", "`renamed` is no longer decided by comparing the two entries' Path.Name ("+itoa(good)+"/"+itoa(n)+" stores)")
	}
	// git.Changes: the three attributes of one side of a change are read at one and the same revision
	if ch := c.MustFunc("C03-R1", "internal/git.Changes"); ch != nil {
		ginfo := ch.Pkg.TypesInfo
		pm := parentMap(ch.Decl.Body)
		type grp struct {
			revs map[string]bool
			n    int
			pos  token.Pos
		}
		groups := map[string]*grp{}
		ast.Inspect(ch.Decl.Body, func(nd ast.Node) bool {
			as, ok := nd.(*ast.AssignStmt)
			if !ok || len(as.Lhs) != 1 || len(as.Rhs) != 1 {
				return true
			}
			call, ok := as.Rhs[0].(*ast.CallExpr)
			if !ok || len(call.Args) < 2 {
				return true
			}
			callee := calleeName(ginfo, call)
			if callee != "internal/git.getTypeForPath" && callee != "internal/git.resolveSymlinkTarget" && callee != "internal/git.getContentAtCommit" {
				return true
			}
			lhs := exprStr(as.Lhs[0])
			side := ""
			switch {
			case strings.Contains(lhs, "Before"):
				side = "Before"
			case strings.Contains(lhs, "After"):
				side = "After"
			default:
				// a local that is stored as the Before/After side afterwards (`change.Path.Before = before`)
				if root, _, ok := accessPath(ginfo, as.Lhs[0]); ok && root != nil {
					ast.Inspect(ch.Decl.Body, func(m ast.Node) bool {
						st, isAs := m.(*ast.AssignStmt)
						if !isAs || len(st.Lhs) != 1 || len(st.Rhs) != 1 || objOf(ginfo, st.Rhs[0]) != root {
							return true
						}
						if sel, isSel := ast.Unparen(st.Lhs[0]).(*ast.SelectorExpr); isSel && (sel.Sel.Name == "Before" || sel.Sel.Name == "After") {
							side = sel.Sel.Name
						}
						return true
					})
				}
				if side == "" {
					return true
				}
			}
			// group per enclosing loop
			loopID := "top"
			for cur := pm[as]; cur != nil; cur = pm[cur] {
				switch cur.(type) {
				case *ast.RangeStmt, *ast.ForStmt:
					loopID = c.P.Pos(cur.Pos())
				}
				if loopID != "top" {
					break
				}
			}
			root, _, _ := accessPath(ginfo, as.Lhs[0])
			rootName := "?"
			if root != nil {
				rootName = root.Name()
			}
			_ = loopID
			k := side + " side of `" + rootName + "` in loop " + itoa(len(groups))
			// stable key: side + ordinal of the enclosing loop
			k = side + "@" + loopID
			g := groups[k]
			if g == nil {
				g = &grp{revs: map[string]bool{}, pos: as.Pos()}
				groups[k] = g
			}
			g.revs[exprStr(call.Args[1])] = true
			g.n++
			return true
		})
		idx := 0
		for _, k := range sortedKeys(groups) {
			g := groups[k]
			idx++
			side := k[:strings.Index(k, "@")]
			c.Check(len(g.revs) == 1, "C03-R1", "git.Changes:"+side+" attributes read at one revision (group "+itoa(idx)+")", g.pos, itoa(g.n)+" reads at "+strings.Join(sortedKeys(g.revs), ","),
				"type, symlink target and body of the "+side+" side are read at different revisions ("+strings.Join(sortedKeys(g.revs), " vs ")+"): one of them describes another commit")
		}
		c.Check(len(groups) >= 3, "C03-R1", "git.Changes:revision groups found", ch.Decl.Pos(), itoa(len(groups)), "expected revision-reading groups not found")
	}

	// ---- R2 ----
	c03DecisionTable(c, "C03-R2")

	// ---- R3 ----
	if me := c.MustFunc("C03-R3", "internal/discovery.matchEntries"); me != nil {
		lits := compositeLits(me.Pkg.TypesInfo, me.Decl.Body, "internal/discovery.matchedEntry")
		for i, cl := range lits {
			hb, ha := litField(cl, "hasBefore"), litField(cl, "hasAfter")
			ok := (hb != nil && exprStr(hb) == "true") || (ha != nil && exprStr(ha) == "true")
			c.Check(ok, "C03-R3", "matchEntries:matchedEntry#"+itoa(i+1), cl.Pos(), "sets hasBefore or hasAfter", "matchedEntry literal sets neither hasBefore nor hasAfter (falls to the stateless default clause)")
		}
		if len(lits) == 0 {
			c.Bad("C03-R3", "matchEntries:matchedEntry literals", me.Decl.Pos(), "no matchedEntry literal found")
		}
	}
	c03Pairing(c, "C03-R3")
	// literals elsewhere
	for _, fi := range p.AllFuncs() {
		if fi.Name == "internal/discovery.matchEntries" || p.IsTestFile(fi.Decl.Pos()) || fi.Decl.Body == nil {
			continue
		}
		for _, cl := range compositeLits(fi.Pkg.TypesInfo, fi.Decl.Body, "internal/discovery.matchedEntry") {
			c.Bad("C03-R3", fi.Name+":matchedEntry literal", cl.Pos(), "matchedEntry constructed outside matchEntries")
		}
	}

	// ---- R4 ----
	c03StateTables(c, "C03-R4")
	c03EveryCheckRunsForMovedRules(c, "C03-R4")
	c09StateDefault(c, "C03-R4")
	c03BaseBranchTest(c, "C03-R5")
	c20DispatchR(c, "C03-R5")
	c03PathFilter(c, "C03-R5")

	// ---- R5 ----
	if find := c.MustFunc("C03-R5", "internal/discovery.GitBranchFinder.Find"); find != nil {
		info := find.Pkg.TypesInfo
		sig := find.Obj.Type().(*types.Signature)
		all := sig.Params().At(0)
		copies := map[string]bool{}
		appended := false
		// the copy may sit in a helper that Find hands the full list to (its first []Entry parameter)
		ast.Inspect(find.Decl.Body, func(n ast.Node) bool {
			call, ok := n.(*ast.CallExpr)
			if !ok {
				return true
			}
			callee := p.FuncOf(Callee(info, call))
			if callee == nil || callee.Pkg != find.Pkg || callee.Decl.Body == nil || callee == find {
				return true
			}
			csig := callee.Obj.Type().(*types.Signature)
			for i, a := range call.Args {
				if objOf(info, a) != types.Object(all) || i >= csig.Params().Len() {
					continue
				}
				hp := csig.Params().At(i)
				ast.Inspect(callee.Decl.Body, func(m ast.Node) bool {
					as, ok := m.(*ast.AssignStmt)
					if !ok || len(as.Lhs) != 1 || len(as.Rhs) != 1 {
						return true
					}
					if sel, ok := as.Lhs[0].(*ast.SelectorExpr); ok {
						if ix, ok := sel.X.(*ast.IndexExpr); ok && objOf(info, ix.X) == types.Object(hp) {
							if rs, ok := as.Rhs[0].(*ast.SelectorExpr); ok && rs.Sel.Name == sel.Sel.Name {
								copies[sel.Sel.Name] = true
							}
						}
					}
					return true
				})
			}
			return true
		})
		ast.Inspect(find.Decl.Body, func(n ast.Node) bool {
			as, ok := n.(*ast.AssignStmt)
			if !ok || len(as.Lhs) != 1 || len(as.Rhs) != 1 {
				return true
			}
			if sel, ok := as.Lhs[0].(*ast.SelectorExpr); ok {
				if ix, ok := sel.X.(*ast.IndexExpr); ok && objOf(info, ix.X) == all {
					if rs, ok := as.Rhs[0].(*ast.SelectorExpr); ok && rs.Sel.Name == sel.Sel.Name {
						copies[sel.Sel.Name] = true
					}
				}
			}
			if objOf(info, as.Lhs[0]) == all {
				if call, ok := as.Rhs[0].(*ast.CallExpr); ok && exprStr(call.Fun) == "append" && objOf(info, call.Args[0]) == all {
					appended = true
				}
			}
			return true
		})
		c.Check(copies["State"], "C03-R5", "Find:merge copies State", find.Decl.Pos(), "copied", "the merge loop no longer copies State into the full entry list")
		c.Check(copies["ModifiedLines"], "C03-R5", "Find:merge copies ModifiedLines", find.Decl.Pos(), "copied", "the merge loop no longer copies ModifiedLines into the full entry list")
		c.Check(appended, "C03-R5", "Find:unmatched/removed entries appended", find.Decl.Pos(), "appended", "entries without a counterpart (removed rules) are no longer appended")
		// successful return hands back the merged list
		rets := returnsIn(find.Decl.Body.List)
		last := rets[len(rets)-1]
		c.Check(len(last.Results) == 2 && objOf(info, last.Results[0]) == all && isNilIdent(info, last.Results[1]), "C03-R5", "Find:returns the merged list", last.Pos(), "returns allEntries", "Find's final return is not the merged list")
	}
	allowed := map[string]string{
		"internal/discovery.GitBranchFinder.Find": "state assignment and merge",
		"internal/discovery.GlobFinder.Find":      "default Noop for lint/watch",
	}
	for _, pkg := range p.ModPkgs() {
		for _, f := range pkg.Syntax {
			if p.IsTestFile(f.Pos()) {
				continue
			}
			ast.Inspect(f, func(n ast.Node) bool {
				as, ok := n.(*ast.AssignStmt)
				if !ok {
					return true
				}
				for _, l := range as.Lhs {
					if fieldSel(pkg.TypesInfo, l, "internal/discovery.Entry", "State") {
						fi := p.enclosingFunc(as.Pos())
						_, ok := allowed[fnName(fi)]
						if !ok && fi != nil {
							// a helper every caller of which is one of the two finders writes on their behalf
							callers := p.CallersOf(fi.Obj)
							all := len(callers) > 0 && len(p.FuncValueUses(fi.Obj)) == 0
							for _, cs := range callers {
								if _, isFinder := allowed[fnName(cs.Caller)]; !isFinder {
									all = false
								}
							}
							ok = all
						}
						c.Check(ok, "C03-R5", "store Entry.State in "+fnName(fi), as.Pos(), allowed[fnName(fi)], "Entry.State is written outside the two finders")
					}
				}
				return true
			})
		}
	}
	if gf := c.MustFunc("C03-R5", "internal/discovery.GlobFinder.Find"); gf != nil {
		info := gf.Pkg.TypesInfo
		ok := true
		n := 0
		ast.Inspect(gf.Decl.Body, func(nd ast.Node) bool {
			as, isAs := nd.(*ast.AssignStmt)
			if !isAs {
				return true
			}
			for i, l := range as.Lhs {
				if fieldSel(info, l, "internal/discovery.Entry", "State") {
					n++
					if k := constObj(info, as.Rhs[i]); k == nil || k.Name() != "Noop" {
						ok = false
					}
				}
			}
			return true
		})
		c.Check(ok && n > 0, "C03-R5", "GlobFinder.Find:default state is Noop", gf.Decl.Pos(), "Noop", "glob finder assigns a state other than Noop")
	}
}

// ---- decision table ----

type c03Val struct{ hB, hA, ident, moved, noFail bool }

type c03Outcome struct {
	state    string // constant name or ""
	appended string // "after", "before" or ""
	undec    string
}

func c03Ref(v c03Val) (c03Outcome, bool) {
	switch {
	case !v.hB && v.hA:
		return c03Outcome{state: "Added", appended: "after"}, true
	case v.hB && v.hA:
		switch {
		case v.ident && !v.moved:
			return c03Outcome{state: "Noop", appended: "after"}, true
		case v.moved:
			return c03Outcome{state: "Moved", appended: "after"}, true
		default:
			return c03Outcome{state: "Modified", appended: "after"}, true
		}
	case v.hB && !v.hA:
		if v.noFail {
			return c03Outcome{state: "Removed", appended: "before"}, true
		}
		return c03Outcome{}, true
	}
	return c03Outcome{}, false // !hB && !hA cannot be constructed (R3)
}

func c03DecisionTable(c *Ctx, R string) {
	find := c.MustFunc(R, "internal/discovery.GitBranchFinder.Find")
	if find == nil {
		return
	}
	info := find.Pkg.TypesInfo
	// the loop over matchEntries(...)
	var loop *ast.RangeStmt
	ast.Inspect(find.Decl.Body, func(n ast.Node) bool {
		if rs, ok := n.(*ast.RangeStmt); ok {
			if call, ok := rs.X.(*ast.CallExpr); ok && isCallTo(info, call, "internal/discovery.matchEntries") {
				loop = rs
			}
		}
		return true
	})
	if loop == nil {
		c.Undecided(R, "Find:range matchEntries(...)", find.Decl.Pos(), "loop over matchEntries(...) not found")
		return
	}
	meID, _ := loop.Value.(*ast.Ident)
	if meID == nil {
		c.Undecided(R, "Find:range matchEntries(...)", loop.Pos(), "no value variable")
		return
	}
	me := info.Defs[meID]
	var entriesObj types.Object
	if res := find.Obj.Type().(*types.Signature).Results(); res.Len() > 0 {
		entriesObj = res.At(0)
	}
	// failedEntries: variable assigned from entriesWithPathErrors
	var failed types.Object
	ast.Inspect(find.Decl.Body, func(n ast.Node) bool {
		if as, ok := n.(*ast.AssignStmt); ok && len(as.Rhs) == 1 {
			if call, ok := as.Rhs[0].(*ast.CallExpr); ok && isCallTo(info, call, "internal/discovery.entriesWithPathErrors") {
				failed = objOf(info, as.Lhs[0])
			}
		}
		return true
	})

	// or a boolean holding `len(entriesWithPathErrors(…)) > 0` (or `== 0`)
	var failedFlag types.Object
	failedFlagMeansFail := true
	if failed == nil {
		ast.Inspect(find.Decl.Body, func(n ast.Node) bool {
			as, ok := n.(*ast.AssignStmt)
			if !ok || len(as.Lhs) != 1 || len(as.Rhs) != 1 {
				return true
			}
			be, ok := ast.Unparen(as.Rhs[0]).(*ast.BinaryExpr)
			if !ok {
				return true
			}
			lc, ok := ast.Unparen(be.X).(*ast.CallExpr)
			if !ok || exprStr(lc.Fun) != "len" || len(lc.Args) != 1 {
				return true
			}
			inner, ok := ast.Unparen(lc.Args[0]).(*ast.CallExpr)
			if !ok || !isCallTo(info, inner, "internal/discovery.entriesWithPathErrors") {
				return true
			}
			if k, isC := constInt(info, be.Y); isC && k == 0 {
				switch be.Op {
				case token.GTR, token.NEQ:
					failedFlag, failedFlagMeansFail = objOf(info, as.Lhs[0]), true
				case token.EQL, token.LEQ:
					failedFlag, failedFlagMeansFail = objOf(info, as.Lhs[0]), false
				}
			}
			return true
		})
		if failedFlag != nil {
			failed = failedFlag // for the per-file test below: same requirements
		}
	}

	// the "this file has parse errors" list is per file: declared inside the loop
	// over the changed files, directly from entriesWithPathErrors(entries of this file)
	{
		pmF := parentMap(find.Decl.Body)
		var outer *ast.RangeStmt
		for cur := pmF[ast.Node(loop)]; cur != nil; cur = pmF[cur] {
			if rs, ok := cur.(*ast.RangeStmt); ok {
				outer = rs
				break
			}
		}
		ok := failed != nil && outer != nil && failed.Pos() > outer.Body.Pos() && failed.Pos() < outer.Body.End()
		// no other assignment to it
		nAssign := 0
		ast.Inspect(find.Decl.Body, func(n ast.Node) bool {
			if as, isAs := n.(*ast.AssignStmt); isAs {
				for _, l := range as.Lhs {
					if failed != nil && objOf(info, l) == failed {
						nAssign++
					}
				}
			}
			return true
		})
		c.Check(ok && nAssign == 1, R, "Find:parse-error list of the file under inspection is per file", find.Decl.Pos(), "declared inside the per-file loop, assigned once",
			"the list of entries with parse errors that the `removed` decision consults is not (only) derived from the file under inspection: a syntax error in one changed file makes rules removed from every file processed after it count as `not removed`, so rule/dependency never sees them")
	}

	var eval func(e ast.Expr, v c03Val) (bool, string)
	eval = func(e ast.Expr, v c03Val) (bool, string) {
		switch x := ast.Unparen(e).(type) {
		case *ast.UnaryExpr:
			if x.Op == token.NOT {
				b, u := eval(x.X, v)
				return !b, u
			}
		case *ast.BinaryExpr:
			switch x.Op {
			case token.LAND:
				a, u1 := eval(x.X, v)
				b, u2 := eval(x.Y, v)
				return a && b, u1 + u2
			case token.LOR:
				a, u1 := eval(x.X, v)
				b, u2 := eval(x.Y, v)
				return a || b, u1 + u2
			case token.EQL, token.NEQ, token.GTR, token.LSS, token.GEQ, token.LEQ:
				// len(failedEntries) <op> 0
				if call, ok := x.X.(*ast.CallExpr); ok && exprStr(call.Fun) == "len" && len(call.Args) == 1 && failed != nil && objOf(info, call.Args[0]) == failed {
					if k, ok := constInt(info, x.Y); ok && k == 0 {
						switch x.Op {
						case token.EQL, token.LEQ:
							return v.noFail, ""
						case token.GTR, token.NEQ:
							return !v.noFail, ""
						case token.GEQ:
							return true, ""
						case token.LSS:
							return false, ""
						}
					}
				}
			}
		case *ast.Ident:
			if failedFlag != nil && info.Uses[x] == failedFlag {
				if failedFlagMeansFail {
					return !v.noFail, ""
				}
				return v.noFail, ""
			}
		case *ast.SelectorExpr:
			if objOf(info, x.X) == me {
				switch x.Sel.Name {
				case "hasBefore":
					return v.hB, ""
				case "hasAfter":
					return v.hA, ""
				case "isIdentical":
					return v.ident, ""
				case "wasMoved":
					return v.moved, ""
				}
			}
		}
		return false, "guard `" + exprStr(e) + "` is not a formula over the five atoms; "
	}

	// exec runs the statements under valuation v; it reports true when the iteration was
	// left by `continue` (nothing after it happens for this entry)
	// (0 = went on, 1 = iteration left by `continue`, 2 = enclosing switch left by `break`)
	var exec func(stmts []ast.Stmt, v c03Val, out *c03Outcome) int
	exec = func(stmts []ast.Stmt, v c03Val, out *c03Outcome) int {
		for _, st := range stmts {
			switch x := st.(type) {
			case *ast.SwitchStmt:
				if x.Tag != nil || x.Init != nil {
					out.undec += "tagged switch in the decision region; "
					continue
				}
				var deflt *ast.CaseClause
				taken := false
				for _, cst := range x.Body.List {
					cc := cst.(*ast.CaseClause)
					if cc.List == nil {
						deflt = cc
						continue
					}
					hit := false
					for _, g := range cc.List {
						b, u := eval(g, v)
						out.undec += u
						if b {
							hit = true
						}
					}
					if hit {
						if exec(cc.Body, v, out) == 1 {
							return 1
						}
						taken = true
						break
					}
				}
				if !taken && deflt != nil {
					if exec(deflt.Body, v, out) == 1 {
						return 1
					}
				}
			case *ast.AssignStmt:
				for i, l := range x.Lhs {
					if fieldSel(info, l, "internal/discovery.Entry", "State") && i < len(x.Rhs) {
						if k := constObj(info, x.Rhs[i]); k != nil {
							out.state = k.Name()
						} else {
							out.undec += "State assigned from a non-constant; "
						}
					}
					if entriesObj != nil && objOf(info, l) == entriesObj && i < len(x.Rhs) {
						if call, ok := x.Rhs[i].(*ast.CallExpr); ok && exprStr(call.Fun) == "append" && len(call.Args) == 2 {
							if sel, ok := call.Args[1].(*ast.SelectorExpr); ok && objOf(info, sel.X) == me {
								if out.appended != "" {
									out.undec += "entry appended twice; "
								}
								out.appended = sel.Sel.Name
							} else {
								out.undec += "append of something other than me.before/me.after; "
							}
						}
					}
				}
			case *ast.IfStmt:
				// an `if` that decides about State/append/continue must be a formula over the atoms;
				// any other `if` (logging, line arithmetic) is skipped
				touches := false
				ast.Inspect(x, func(n ast.Node) bool {
					switch y := n.(type) {
					case *ast.AssignStmt:
						for _, l := range y.Lhs {
							if fieldSel(info, l, "internal/discovery.Entry", "State") || (entriesObj != nil && objOf(info, l) == entriesObj) {
								touches = true
							}
						}
					case *ast.BranchStmt:
						if (y.Tok == token.CONTINUE || y.Tok == token.BREAK) && y.Label == nil {
							touches = true
						}
					case *ast.ForStmt, *ast.RangeStmt, *ast.FuncLit:
						return false
					}
					return true
				})
				if touches {
					if x.Init != nil {
						out.undec += "State/append under an `if` with an init statement inside the decision region; "
						continue
					}
					b, u := eval(x.Cond, v)
					if u != "" {
						out.undec += "State/append under an `if` inside the decision region whose condition is not over the atoms; "
						continue
					}
					if b {
						if r := exec(x.Body.List, v, out); r != 0 {
							return r
						}
					} else if x.Else != nil {
						switch e := x.Else.(type) {
						case *ast.BlockStmt:
							if r := exec(e.List, v, out); r != 0 {
								return r
							}
						case *ast.IfStmt:
							if r := exec([]ast.Stmt{e}, v, out); r != 0 {
								return r
							}
						}
					}
				}
			case *ast.BranchStmt:
				if x.Tok == token.CONTINUE && x.Label == nil {
					return 1
				}
				if x.Tok == token.BREAK && x.Label == nil {
					return 2 // leaves the innermost switch of the decision region (loops are not entered)
				}
				out.undec += "jump inside the decision region; "
			case *ast.ReturnStmt:
				out.undec += "jump inside the decision region; "
			}
		}
		return 0
	}

	for bits := 0; bits < 32; bits++ {
		v := c03Val{bits&1 != 0, bits&2 != 0, bits&4 != 0, bits&8 != 0, bits&16 != 0}
		key := fmt.Sprintf("valuation hasBefore=%v hasAfter=%v isIdentical=%v wasMoved=%v noParseFailures=%v", v.hB, v.hA, v.ident, v.moved, v.noFail)
		want, reachable := c03Ref(v)
		if !reachable {
			c.Ok(R, key, loop.Pos(), "unconstructible (R3)")
			continue
		}
		var got c03Outcome
		exec(loop.Body.List, v, &got)
		if got.undec != "" {
			c.Undecided(R, key, loop.Pos(), got.undec)
			continue
		}
		c.Check(got.state == want.state && got.appended == want.appended, R, key, loop.Pos(),
			"state="+want.state+" appended="+want.appended,
			fmt.Sprintf("code yields state=%q appended=%q, reference is state=%q appended=%q", got.state, got.appended, want.state, want.appended))
	}
}

// c03StateTables checks the documented state vocabulary (shared with C09-R2).
func c03StateTables(c *Ctx, rule string) {
	p := c.P
	want := map[string]string{"added": "Added", "modified": "Modified", "renamed": "Moved", "removed": "Removed", "unmodified": "Noop", "any": "*"}
	if sm := c.MustFunc(rule, "internal/config.stateMatches"); sm != nil {
		// decided by evaluation (minieval.go): stateMatches is run on every one-word list, on the empty
		// list, on an unknown word and on two-word lists, against every change type
		info := sm.Pkg.TypesInfo
		sig := sm.Obj.Type().(*types.Signature)
		if sig.Params().Len() != 2 {
			c.Undecided(rule, "stateMatches:signature", sm.Decl.Pos(), "expected (states []string, state ChangeType)")
			return
		}
		statesP, stateP := sig.Params().At(0), sig.Params().At(1)
		types_ := []string{"Unknown", "Noop", "Added", "Modified", "Removed", "Moved"}
		tval := map[string]int64{}
		for _, tn := range types_ {
			k, _ := p.LookupObj("internal/discovery", tn).(*types.Const)
			if k == nil {
				c.Undecided(rule, "anchor:discovery."+tn, token.NoPos, "change type constant not found")
				return
			}
			v, _ := constantInt(k)
			tval[tn] = v
		}
		run := func(states []string, tn string) (bool, string) {
			ev := &miniEval{info: info, prog: c.P, env: map[types.Object]mval{}}
			ev.env[statesP] = mList(states)
			ev.env[stateP] = mval{k: mvInt, i: tval[tn]}
			ctl := ev.block(sm.Decl.Body.List)
			if ev.undec != "" {
				return false, ev.undec
			}
			if ctl.kind != 'r' || ctl.ret.k != mvBool {
				return false, "no boolean result"
			}
			return ctl.ret.b, ""
		}
		undecided := ""
		for _, w := range sortedKeys(want) {
			got := ""
			for _, tn := range types_ {
				r, u := run([]string{w}, tn)
				if u != "" {
					undecided = u
					break
				}
				if r {
					if got == "" {
						got = tn
					} else {
						got = "*"
					}
				}
			}
			if undecided != "" {
				break
			}
			if want[w] == "*" && got == "*" {
				// every change type
				all := true
				for _, tn := range types_ {
					if r, _ := run([]string{w}, tn); !r {
						all = false
					}
				}
				if !all {
					got = "some"
				}
			}
			c.Check(got == want[w], rule, "stateMatches:"+w+"->"+want[w], sm.Decl.Pos(), "documented meaning", "state word "+strq(w)+" matches change type "+strq(got)+", documented meaning is "+want[w])
		}
		if undecided != "" {
			c.Undecided(rule, "stateMatches:evaluation", sm.Decl.Pos(), "stateMatches could not be evaluated: "+undecided)
		} else {
			bad := ""
			for _, tn := range types_ {
				if r, _ := run(nil, tn); r {
					bad = "an empty list matches " + tn
				}
				if r, _ := run([]string{"bogus"}, tn); r {
					bad = "the unknown word \"bogus\" matches " + tn
				}
				// a list is a disjunction of its words, whatever their order
				for _, pair := range [][]string{{"added", "removed"}, {"removed", "added"}, {"bogus", "modified"}, {"unmodified", "bogus"}} {
					wantPair := false
					for _, w := range pair {
						if want[w] == tn {
							wantPair = true
						}
					}
					if r, _ := run(pair, tn); r != wantPair && bad == "" {
						bad = "[" + strings.Join(pair, ",") + "] against " + tn + " gives " + boolStr(r)
					}
				}
			}
			c.Check(bad == "", rule, "stateMatches:no match -> false", sm.Decl.Pos(), "false", "stateMatches is not the disjunction of its words: "+bad)
		}
	}
	ci, pos, ok := stringSliceVar(p, "internal/config", "CIStates")
	if !ok {
		c.Undecided(rule, "anchor:config.CIStates", pos, "not a literal of constants")
	} else {
		s := append([]string{}, ci...)
		sort.Strings(s)
		c.Check(strings.Join(s, ",") == "added,modified,removed,renamed", rule, "CIStates={added,modified,renamed,removed}", pos, "documented CI default", "CIStates is ["+strings.Join(ci, ",")+"], documented default for `pint ci` is added, modified, renamed, removed")
	}
	anyS, pos2, ok2 := stringSliceVar(p, "internal/config", "AnyStates")
	c.Check(ok2 && len(anyS) == 1 && anyS[0] == "any", rule, "AnyStates={any}", pos2, "any", "AnyStates is no longer [any]")
	if dms := c.MustFunc(rule, "internal/config.defaultMatchStates"); dms != nil {
		info := dms.Pkg.TypesInfo
		// every return is either CIStates under exactly "the command is ci" or AnyStates not under it,
		// whether written as a switch on the command or as an if with an early return
		okCI, okDef := false, false
		nCases := 1
		dpm := parentMap(dms.Decl.Body)
		cmdP := paramObj(dms, 0)
		for _, r := range returnsIn(dms.Decl.Body.List) {
			if len(r.Results) != 1 {
				nCases = 0
				continue
			}
			underCI, other := false, false
			for _, g := range lexicalGuards(dpm, r, dms.Decl.Body) {
				isCI := false
				if g.Tag != nil {
					if o := objOf(info, g.E); o != nil && o.Name() == "CICommand" && objOf(info, g.Tag) == cmdP {
						isCI = true
					}
				} else if be, ok := ast.Unparen(g.E).(*ast.BinaryExpr); ok && be.Op == token.EQL && objOf(info, be.X) == cmdP {
					if o := objOf(info, be.Y); o != nil && o.Name() == "CICommand" {
						isCI = true
					}
				}
				switch {
				case isCI && g.Truth:
					underCI = true
				case isCI && !g.Truth:
					// the negation of the ci test: fine for the other return
				default:
					other = true
				}
			}
			res := objOf(info, r.Results[0])
			switch {
			case res == p.LookupObj("internal/config", "CIStates") && underCI && !other:
				okCI = true
			case res == p.LookupObj("internal/config", "AnyStates") && !underCI && !other:
				okDef = true
			default:
				nCases = 0
			}
		}
		c.Check(okCI && okDef && nCases == 1, rule, "defaultMatchStates:ci->CIStates, otherwise AnyStates", dms.Decl.Pos(), "state default depends on the command", "defaultMatchStates no longer returns CIStates exactly for the ci command and AnyStates otherwise")
	}
	// CICommand/LintCommand/WatchCommand values
	for name, val := range map[string]string{"CICommand": "ci", "LintCommand": "lint", "WatchCommand": "watch"} {
		v, ok := p.LookupObj("internal/config", name).(*types.Var)
		if !ok {
			c.Undecided(rule, "anchor:config."+name, token.NoPos, "not found")
			continue
		}
		got, found := "", false
		cfg := p.Pkg("internal/config")
		for _, f := range cfg.Syntax {
			ast.Inspect(f, func(n ast.Node) bool {
				if vs, ok := n.(*ast.ValueSpec); ok {
					for i, id := range vs.Names {
						if cfg.TypesInfo.Defs[id] == v && i < len(vs.Values) {
							got, found = constString(cfg.TypesInfo, vs.Values[i])
						}
					}
				}
				return true
			})
		}
		c.Check(found && got == val, rule, "command word:"+name+"="+val, v.Pos(), "documented", name+" is "+strq(got))
	}
	// Match.validate accepts exactly the documented words
	if mv := c.MustFunc(rule, "internal/config.Match.validate"); mv != nil {
		info := mv.Pkg.TypesInfo
		got := map[string]bool{}
		for _, sw := range findSwitches(mv.Decl.Body, func(s *ast.SwitchStmt) bool {
			if s.Tag == nil {
				return false
			}
			id, ok := s.Tag.(*ast.Ident)
			return ok && info.TypeOf(id).String() == "string"
		}) {
			cases, _ := switchCases(sw)
			for _, cs := range cases {
				if w, ok := constString(info, cs.Expr); ok {
					got[w] = true
				}
			}
		}
		words := sortedKeys(got)
		c.Check(strings.Join(words, ",") == "added,any,modified,removed,renamed,unmodified", rule, "Match.validate:state words", mv.Decl.Pos(), "documented vocabulary", "validate accepts state words ["+strings.Join(words, ",")+"]")
	}
}

// c03Pairing: before/after pairing by name requires the same rule kind and
// an error-free entry (shared with C20: a kind-blind pairing turns a removal
// into a modification and rule/dependency never runs).
func c03Pairing(c *Ctx, rule string) {
	p := c.P
	c03Conservation(c, rule)
	if frn := c.MustFunc(rule, "internal/discovery.findRulesByName"); frn != nil {
		finfo := frn.Pkg.TypesInfo
		fl := p.NewFlow(frn)
		sig := frn.Obj.Type().(*types.Signature)
		matchRes := sig.Results().At(sig.Results().Len() - 1)
		apps := fl.Find(func(n ast.Node) bool {
			as, ok := n.(*ast.AssignStmt)
			return ok && len(as.Lhs) == 1 && objOf(finfo, as.Lhs[0]) == matchRes
		})
		c.Check(len(apps) == 1, rule, "findRulesByName:one match collector", frn.Decl.Pos(), "one append", itoa(len(apps))+" appends to the match list")
		for _, a := range apps {
			eqCall := func(method string) func(Atom) bool {
				return func(at Atom) bool {
					be, ok := ast.Unparen(at.E).(*ast.BinaryExpr)
					if !ok || at.Tag != nil || !at.Truth || be.Op != token.EQL {
						return false
					}
					for _, side := range []ast.Expr{be.X, be.Y} {
						if call, ok := side.(*ast.CallExpr); ok && isCallTo(finfo, call, "internal/parser.Rule."+method) {
							return true
						}
					}
					return false
				}
			}
			c.Check(fl.Dominated(a.Site, nil, eqCall("Name")), rule, "findRulesByName:match requires equal Name()", a.Inner.Pos(), "guarded", "before/after pairing no longer requires the same rule name")
			c.Check(fl.Dominated(a.Site, nil, eqCall("Type")), rule, "findRulesByName:match requires equal Type()", a.Inner.Pos(), "guarded", "before/after pairing is kind-blind: a removed recording rule is paired with a new alert of the same name and classified modified instead of removed")
			c.Check(fl.Dominated(a.Site, nil, func(at Atom) bool {
				x, isNil, ok := nilAtom(finfo, at)
				return ok && isNil && fieldSel(finfo, x, "internal/discovery.Entry", "PathError")
			}), rule, "findRulesByName:match requires PathError == nil", a.Inner.Pos(), "guarded", "entries with path errors can be paired by name")
		}
	}
}

// c03PathFilter: in git.Changes the include/exclude filter is asked about the
// very path the change is recorded under (FileChange.Path.After.Name). Asking
// about the rename source drops files moved into an included directory (their
// rules stay noop) and keeps files moved out of it.
func c03PathFilter(c *Ctx, rule string) {
	fi := c.MustFunc(rule, "internal/git.Changes")
	if fi == nil {
		return
	}
	info := fi.Pkg.TypesInfo
	// the value stored as Path.After.Name in FileChange literals
	var after []string
	for _, cl := range compositeLits(info, fi.Decl.Body, "internal/git.FileChange") {
		if pd, ok := ast.Unparen(litFieldOr(cl, "Path")).(*ast.CompositeLit); ok {
			if ap, ok := ast.Unparen(litFieldOr(pd, "After")).(*ast.CompositeLit); ok {
				if nm := litField(ap, "Name"); nm != nil {
					after = append(after, exprIdentity(info, nm))
				}
			}
		}
	}
	if len(after) == 0 {
		c.Undecided(rule, "Changes:path recorded as After.Name", fi.Decl.Pos(), "no FileChange{Path: PathDiff{After: Path{Name: x}}} literal found")
		return
	}
	n := 0
	ast.Inspect(fi.Decl.Body, func(nd ast.Node) bool {
		call, ok := nd.(*ast.CallExpr)
		if !ok || !isCallTo(info, call, "internal/git.PathFilter.IsPathAllowed") || len(call.Args) != 1 {
			return true
		}
		n++
		ok2 := false
		for _, o := range after {
			if exprIdentity(info, call.Args[0]) == o {
				ok2 = true
			}
		}
		c.Check(ok2, rule, "Changes:include/exclude filter asked about the path the change is recorded under", call.Pos(), "After.Name",
			"the path filter is evaluated on `"+roleStr(info, call.Args[0])+"`, not on the path stored as Path.After.Name: a file renamed across the include/exclude boundary is classified by where it came from, so rules moved into scope stay `noop` and are never checked")
		return true
	})
	c.Check(n >= 1, rule, "Changes:path filter consulted", fi.Decl.Pos(), itoa(n)+" call(s)", "git.Changes no longer applies the include/exclude filter")
}

func litFieldOr(cl *ast.CompositeLit, name string) ast.Expr {
	if v := litField(cl, name); v != nil {
		return v
	}
	return &ast.BadExpr{}
}

// c03ProducerDedupes: every append to the per-file disabled-check list in
// discovery.readRules is guarded by !slices.Contains(list, value).
func c03ProducerDedupes(p *Prog) bool {
	fi := p.Func("internal/discovery.readRules")
	if fi == nil {
		return false
	}
	info := fi.Pkg.TypesInfo
	pm := parentMap(fi.Decl.Body)
	// the list: the local stored into Entry.DisabledChecks
	var list types.Object
	for _, cl := range compositeLits(info, fi.Decl.Body, "internal/discovery.Entry") {
		if v := litField(cl, "DisabledChecks"); v != nil {
			list = objOf(info, v)
		}
	}
	if list == nil {
		return false
	}
	n, good := 0, 0
	ast.Inspect(fi.Decl.Body, func(nd ast.Node) bool {
		as, ok := nd.(*ast.AssignStmt)
		if !ok || len(as.Lhs) != 1 || len(as.Rhs) != 1 || objOf(info, as.Lhs[0]) != list {
			return true
		}
		call, ok := as.Rhs[0].(*ast.CallExpr)
		if !ok || exprStr(call.Fun) != "append" || len(call.Args) != 2 {
			return true
		}
		n++
		for _, a := range lexicalGuards(pm, as, fi.Decl.Body) {
			g, ok := ast.Unparen(a.E).(*ast.CallExpr)
			if ok && !a.Truth && len(g.Args) == 2 && isObj(info, g.Args[0], list) && sameExpr(info, g.Args[1], call.Args[1]) {
				if fn := Callee(info, g); fn != nil && fn.Pkg() != nil && fn.Pkg().Path() == "slices" && fn.Name() == "Contains" {
					good++
				}
			}
		}
		return true
	})
	return n >= 1 && n == good
}

// c03Conservation: matchEntries takes same-named candidates out of the pool of
// base-branch rules (findRulesByName returns the rest and the candidates). Each
// candidate taken out is either paired with the HEAD rule (exactly one
// candidate) or put back: in the switch on the number of candidates every arm
// for two or more appends ALL of them back to the pool. Otherwise untouched
// namesakes vanish from the pool: they are reported as added instead of
// unmodified, and the edited rule's old version is never reported as removed.
func c03Conservation(c *Ctx, rule string) {
	me := c.MustFunc(rule, "internal/discovery.matchEntries")
	frn := c.P.Func("internal/discovery.findRulesByName")
	if me == nil || frn == nil {
		return
	}
	info := me.Pkg.TypesInfo
	var pool, cands types.Object
	ast.Inspect(me.Decl.Body, func(n ast.Node) bool {
		as, ok := n.(*ast.AssignStmt)
		if !ok || len(as.Lhs) != 2 || len(as.Rhs) != 1 {
			return true
		}
		if call, ok := as.Rhs[0].(*ast.CallExpr); ok && Callee(info, call) == frn.Obj {
			pool, cands = objOf(info, as.Lhs[0]), objOf(info, as.Lhs[1])
		}
		return true
	})
	if pool == nil || cands == nil {
		c.Undecided(rule, "matchEntries:pool, candidates := findRulesByName(...)", me.Decl.Pos(), "call not found")
		return
	}
	// the switch over the number of candidates, tagged (`switch len(c) { case 0: … }`) or
	// tagless (`switch { case len(c) == 1: … case len(c) > 1: … }`); every arm is a predicate over n
	isLenCands := func(e ast.Expr) bool {
		call, ok := ast.Unparen(e).(*ast.CallExpr)
		return ok && exprStr(call.Fun) == "len" && len(call.Args) == 1 && isObj(info, call.Args[0], cands)
	}
	cmpN := func(e ast.Expr) (func(n int64) bool, bool) {
		be, ok := ast.Unparen(e).(*ast.BinaryExpr)
		if !ok || !isLenCands(be.X) {
			return nil, false
		}
		k, isC := constInt(info, be.Y)
		if !isC {
			return nil, false
		}
		switch be.Op {
		case token.EQL:
			return func(n int64) bool { return n == k }, true
		case token.NEQ:
			return func(n int64) bool { return n != k }, true
		case token.GTR:
			return func(n int64) bool { return n > k }, true
		case token.GEQ:
			return func(n int64) bool { return n >= k }, true
		case token.LSS:
			return func(n int64) bool { return n < k }, true
		case token.LEQ:
			return func(n int64) bool { return n <= k }, true
		}
		return nil, false
	}
	type arm struct {
		pred func(n int64) bool // nil: default
		cc   *ast.CaseClause
	}
	var sw *ast.SwitchStmt
	var arms []arm
	for _, s := range findSwitches(me.Decl.Body, func(s *ast.SwitchStmt) bool { return true }) {
		var as []arm
		ok := len(s.Body.List) > 0
		for _, st := range s.Body.List {
			cc := st.(*ast.CaseClause)
			if cc.List == nil {
				as = append(as, arm{nil, cc})
				continue
			}
			var preds []func(int64) bool
			for _, e := range cc.List {
				if s.Tag != nil {
					k, isC := constInt(info, e)
					if !isLenCands(s.Tag) || !isC {
						ok = false
						break
					}
					preds = append(preds, func(n int64) bool { return n == k })
				} else if p, isP := cmpN(e); isP {
					preds = append(preds, p)
				} else {
					ok = false
				}
			}
			ps := preds
			as = append(as, arm{func(n int64) bool {
				for _, p := range ps {
					if p(n) {
						return true
					}
				}
				return false
			}, cc})
		}
		if ok {
			sw, arms = s, as
		}
	}
	if sw == nil {
		c.Undecided(rule, "matchEntries:switch on the number of candidates", me.Decl.Pos(), "not found")
		return
	}
	putsBack := func(cc *ast.CaseClause) bool {
		back := false
		for _, b := range cc.Body {
			ast.Inspect(b, func(m ast.Node) bool {
				as, ok := m.(*ast.AssignStmt)
				if !ok || len(as.Lhs) != 1 || len(as.Rhs) != 1 || !isObj(info, as.Lhs[0], pool) {
					return true
				}
				call, ok := as.Rhs[0].(*ast.CallExpr)
				if ok && exprStr(call.Fun) == "append" && len(call.Args) == 2 && call.Ellipsis.IsValid() && isObj(info, call.Args[0], pool) && isObj(info, call.Args[1], cands) {
					back = true
				}
				return true
			})
		}
		return back
	}
	okAll, n := true, 0
	seenArm := map[*ast.CaseClause]bool{}
	for _, cnt := range []int64{2, 3, 4, 17} {
		var hit *ast.CaseClause
		var deflt *ast.CaseClause
		for _, a := range arms {
			if a.pred == nil {
				deflt = a.cc
				continue
			}
			if hit == nil && a.pred(cnt) {
				hit = a.cc
			}
		}
		if hit == nil {
			hit = deflt
		}
		if hit == nil {
			okAll = false // several candidates taken out and no arm deals with them
			continue
		}
		if !seenArm[hit] {
			seenArm[hit] = true
			n++
		}
		if !putsBack(hit) {
			okAll = false
		}
	}
	c.Check(okAll && n >= 1, rule, "matchEntries:ambiguous candidates are put back into the pool", sw.Pos(), itoa(n)+" arm(s) for two or more candidates",
		"when a HEAD rule has several same-named base rules, the candidates taken out of the pool are not all appended back: untouched namesakes are then classified as added (and checked as new), and the old version of the edited one is never reported as removed")
}

// checkParamsUsed: a constructor hands every one of its parameters on. A
// parameter that is accepted and then dropped (a field left out of the struct
// literal while re-ordering it) silently replaces a configured value by the
// zero value: the schema, the path filter, the allowed owners.
func checkParamsUsed(c *Ctx, rule string, fns ...string) {
	for _, q := range fns {
		fi := c.MustFunc(rule, q)
		if fi == nil {
			continue
		}
		info := fi.Pkg.TypesInfo
		used := map[types.Object]bool{}
		ast.Inspect(fi.Decl.Body, func(n ast.Node) bool {
			if id, ok := n.(*ast.Ident); ok {
				if o := info.Uses[id]; o != nil {
					used[o] = true
				}
			}
			return true
		})
		var unused []string
		sig := fi.Obj.Type().(*types.Signature)
		k := 0
		for _, f := range fi.Decl.Type.Params.List {
			for _, nm := range f.Names {
				if nm.Name != "_" && !used[info.Defs[nm]] {
					unused = append(unused, "#"+itoa(k+1)+" ("+types.TypeString(sig.Params().At(k).Type(), func(p *types.Package) string { return p.Name() })+")")
				}
				k++
			}
		}
		c.Check(len(unused) == 0, rule, fi.Obj.Name()+":every parameter is handed on", fi.Decl.Pos(), itoa(k)+" parameter(s), all used",
			"parameter "+strings.Join(unused, ", ")+" of "+fi.Obj.Name()+" is accepted and never used: the value the caller configured is replaced by the zero value of the field it used to fill")
	}
}

// c03SymlinkWalk: findSymlinks looks at every entry below the working
// directory: its walk callback never prunes a directory (fs.SkipDir /
// fs.SkipAll). A symlink inside a skipped directory is not followed, so rules
// reachable only through it keep the glob finder's `noop` when their target
// changes on the branch.
func c03SymlinkWalk(c *Ctx, rule string) {
	fi := c.MustFunc(rule, "internal/discovery.findSymlinks")
	if fi == nil {
		return
	}
	info := fi.Pkg.TypesInfo
	bad := ""
	ast.Inspect(fi.Decl.Body, func(n ast.Node) bool {
		if sel, ok := n.(*ast.SelectorExpr); ok {
			if v, isVar := info.Uses[sel.Sel].(*types.Var); isVar && v.Pkg() != nil && (v.Pkg().Path() == "io/fs" || v.Pkg().Path() == "path/filepath") && (v.Name() == "SkipDir" || v.Name() == "SkipAll") {
				bad = c.P.Pos(sel.Pos())
			}
		}
		return true
	})
	c.Check(bad == "", rule, "findSymlinks:the walk prunes nothing", fi.Decl.Pos(), "no SkipDir / SkipAll", "the symlink walk skips a directory at "+bad+": symlinks below it are never followed, so the rules they lead to are not re-classified when their target file changes")
}

// c03EveryCheckRunsForMovedRules: a rule of a renamed file is classified Moved
// even when its content changed in the same branch, so every check that looks
// at rules as they are (every check but rule/dependency, which looks at
// removed ones) lists all four non-removed states: Noop, Added, Modified,
// Moved. A check that drops one silently skips correctly classified rules.
func c03EveryCheckRunsForMovedRules(c *Ctx, R string) {
	p := c.P
	n := 0
	for _, tn := range checkerTypes(c, R) {
		tq := typeQName(tn.Type())
		if tq == "internal/checks.RuleDependencyCheck" {
			continue
		}
		meta := p.methodOn(tq, "Meta")
		if meta == nil {
			continue
		}
		states, ok := metaStates(meta)
		if !ok {
			c.Undecided(R, "meta:"+tq, meta.Decl.Pos(), "Meta() is not a single literal with a constant States list")
			continue
		}
		n++
		have := map[string]bool{}
		for _, s := range states {
			have[s] = true
		}
		missing := ""
		for _, s := range []string{"Noop", "Added", "Modified", "Moved"} {
			if !have[s] {
				missing += " " + s
			}
		}
		c.Check(missing == "", R, "states:"+tq+" runs for every non-removed state", meta.Decl.Pos(), strings.Join(states, ","),
			tq+" does not run for rules in state"+missing+": `pint ci` classifies the rule correctly and then skips this check for it (a rule edited in a renamed file is Moved)")
	}
	c.Check(n >= 25, R, "check types with a state list enumerated", token.NoPos, itoa(n), "fewer check types than confirmed")
}

// c03BaseBranchTest: `pint ci` does nothing when it is run on the base branch
// itself. That test compares the name of the current branch as git reports it
// with (the last path element of) the configured base branch; the current
// branch is not shortened, trimmed or otherwise rewritten first, or a feature
// branch such as `jsmith/main` is taken for `main` and every change on it is
// skipped.
func c03BaseBranchTest(c *Ctx, R string) {
	fi := c.MustFunc(R, "cmd/pint.actionCI")
	if fi == nil {
		return
	}
	info := fi.Pkg.TypesInfo
	var cur types.Object
	ast.Inspect(fi.Decl.Body, func(n ast.Node) bool {
		if as, ok := n.(*ast.AssignStmt); ok && len(as.Rhs) == 1 {
			if call, isCall := as.Rhs[0].(*ast.CallExpr); isCall && isCallTo(info, call, "internal/git.CurrentBranch") && len(as.Lhs) >= 1 {
				cur = objOf(info, as.Lhs[0])
			}
		}
		return true
	})
	if cur == nil {
		c.Undecided(R, "actionCI:current branch", fi.Decl.Pos(), "no `x, err := git.CurrentBranch(…)`")
		return
	}
	// comparisons that mention the current branch and guard an early `return nil`
	n, bad := 0, ""
	ast.Inspect(fi.Decl.Body, func(nd ast.Node) bool {
		ifs, ok := nd.(*ast.IfStmt)
		if !ok {
			return true
		}
		mentions := false
		ast.Inspect(ifs.Cond, func(m ast.Node) bool {
			if id, isID := m.(*ast.Ident); isID && info.Uses[id] == cur {
				mentions = true
			}
			return true
		})
		rets := returnsIn(ifs.Body.List)
		if !mentions || len(rets) == 0 || len(rets[len(rets)-1].Results) != 1 || !isNilIdent(info, rets[len(rets)-1].Results[0]) {
			return true
		}
		be, isBin := ast.Unparen(ifs.Cond).(*ast.BinaryExpr)
		if !isBin || be.Op != token.EQL {
			bad = "the test is `" + exprStr(ifs.Cond) + "`"
			n++
			return true
		}
		n++
		if objOf(info, be.X) != cur && objOf(info, be.Y) != cur {
			bad = "the current branch enters the comparison as `" + exprStr(be.X) + "` / `" + exprStr(be.Y) + "`, not as reported by git"
		}
		return true
	})
	c.Check(n == 1 && bad == "", R, "actionCI:base-branch shortcut compares the current branch name itself", fi.Decl.Pos(), "currentBranch == <base name>",
		bad+" ("+itoa(n)+" shortcut tests): a feature branch whose rewritten name equals the base branch name is treated as the base branch — `pint ci` exits 0 without classifying a single changed rule")
}
