package main

import (
	"fmt"
	"go/ast"
	"go/token"
	"go/types"
	"os"
	"sort"
	"strings"

	"golang.org/x/tools/go/packages"
)

// ModPath is the module under analysis.
const ModPath = "github.com/cloudflare/pint"

// Prog is the type-checked program loaded from the working tree.
type Prog struct {
	Repo   string
	Fset   *token.FileSet
	Roots  []*packages.Package
	ByPath map[string]*packages.Package
	Tags   string
	Tests  bool

	funcs   map[string]*FuncInfo // qualified name -> info
	byObj   map[*types.Func]*FuncInfo
	callers map[*types.Func][]CallSite
}

// FuncInfo is a source function or method of a module package.
type FuncInfo struct {
	Pkg  *packages.Package
	Decl *ast.FuncDecl
	Obj  *types.Func
	Name string // "pkg/path.Func" or "pkg/path.(T).Method" relative to the module
}

// CallSite is one resolved static call.
type CallSite struct {
	Caller *FuncInfo
	Call   *ast.CallExpr
	InGo   bool // directly the call of a go statement
	InLit  bool // lexically inside a function literal of Caller
}

// LoadProg loads and type-checks every package of the module in repo.
func LoadProg(repo string, tests bool, tags string, overlay map[string][]byte) (*Prog, error) {
	os.Unsetenv("GOWORK")
	os.Setenv("GOFLAGS", "-mod=mod")
	os.Setenv("GOPROXY", "off")
	fset := token.NewFileSet()
	cfg := &packages.Config{
		Mode:    packages.LoadAllSyntax,
		Dir:     repo,
		Fset:    fset,
		Tests:   tests,
		Overlay: overlay,
		Env:     append(os.Environ(), "GOWORK=off"),
	}
	if tags != "" {
		cfg.BuildFlags = []string{"-tags=" + tags}
	}
	pkgs, err := packages.Load(cfg, "./...", "github.com/prometheus/prometheus/model/rulefmt")
	if err != nil {
		return nil, fmt.Errorf("load: %w", err)
	}
	p := &Prog{Repo: repo, Fset: fset, ByPath: map[string]*packages.Package{}, Tags: tags, Tests: tests}
	var errs []string
	packages.Visit(pkgs, nil, func(pkg *packages.Package) {
		// With Tests=true several variants of one package exist; prefer the
		// variant with most files for lookups by path.
		if old, ok := p.ByPath[pkg.PkgPath]; !ok || len(pkg.Syntax) > len(old.Syntax) {
			p.ByPath[pkg.PkgPath] = pkg
		}
		if strings.HasPrefix(pkg.PkgPath, ModPath) {
			for _, e := range pkg.Errors {
				errs = append(errs, e.Error())
			}
		}
	})
	for _, pkg := range pkgs {
		if !strings.HasPrefix(pkg.PkgPath, ModPath) {
			continue
		}
		if strings.HasSuffix(pkg.PkgPath, ".test") {
			continue
		}
		p.Roots = append(p.Roots, pkg)
	}
	sort.Slice(p.Roots, func(i, j int) bool { return p.Roots[i].ID < p.Roots[j].ID })
	if len(errs) > 0 {
		return nil, fmt.Errorf("type errors in module packages: %s", strings.Join(errs, "; "))
	}
	if len(p.Roots) == 0 {
		return nil, fmt.Errorf("no module packages loaded from %s", repo)
	}
	p.normalise()
	p.index()
	return p, nil
}

// normalise puts every `==` / `!=` comparison of the module into one operand
// order before any rule looks at it: the constant (or nil) operand on the
// right. `nil != x`, `"" == s` and `0 == len(v)` mean the same as their usual
// spelling and must not change a verdict. Only the X/Y pointers of the node are
// exchanged; node identity (and with it types.Info) is untouched.
func (p *Prog) normalise() {
	for _, pkg := range p.ModPkgs() {
		info := pkg.TypesInfo
		constLike := func(e ast.Expr) bool {
			if tv, ok := info.Types[e]; ok && (tv.Value != nil || tv.IsNil()) {
				return true
			}
			// an untyped nil is recorded with the type of the other operand
			if id, ok := ast.Unparen(e).(*ast.Ident); ok && id.Name == "nil" {
				if _, isNil := info.Uses[id].(*types.Nil); isNil {
					return true
				}
			}
			return false
		}
		for _, f := range pkg.Syntax {
			ast.Inspect(f, func(n ast.Node) bool {
				if be, ok := n.(*ast.BinaryExpr); ok && (be.Op == token.EQL || be.Op == token.NEQ) {
					if constLike(be.X) && !constLike(be.Y) {
						be.X, be.Y = be.Y, be.X
					}
				}
				return true
			})
		}
	}
}

// ModPkgs returns one package per module import path (non-test variant
// preferred unless Tests is set, in which case the widest variant).
func (p *Prog) ModPkgs() []*packages.Package {
	seen := map[string]bool{}
	var out []*packages.Package
	for _, r := range p.Roots {
		path := strings.TrimSuffix(r.PkgPath, "_test")
		_ = path
		if seen[r.PkgPath] {
			continue
		}
		seen[r.PkgPath] = true
		out = append(out, p.ByPath[r.PkgPath])
	}
	return out
}

// Pkg returns the module package with the given module-relative path
// ("internal/checks", "cmd/pint"), or an external package by full path.
func (p *Prog) Pkg(rel string) *packages.Package {
	if pkg, ok := p.ByPath[ModPath+"/"+rel]; ok {
		return pkg
	}
	return p.ByPath[rel]
}

func relPkg(path string) string {
	return strings.TrimPrefix(strings.TrimPrefix(path, ModPath), "/")
}

func funcQName(fn *types.Func) string {
	sig := fn.Type().(*types.Signature)
	pkg := ""
	if fn.Pkg() != nil {
		pkg = relPkg(fn.Pkg().Path())
	}
	if recv := sig.Recv(); recv != nil {
		t := recv.Type()
		if pt, ok := t.(*types.Pointer); ok {
			t = pt.Elem()
		}
		name := "?"
		switch tt := t.(type) {
		case *types.Named:
			name = tt.Obj().Name()
		case *types.Alias:
			name = tt.Obj().Name()
		}
		return pkg + "." + name + "." + fn.Name()
	}
	return pkg + "." + fn.Name()
}

func (p *Prog) index() {
	p.funcs = map[string]*FuncInfo{}
	p.byObj = map[*types.Func]*FuncInfo{}
	for _, pkg := range p.ModPkgs() {
		for _, f := range pkg.Syntax {
			for _, d := range f.Decls {
				fd, ok := d.(*ast.FuncDecl)
				if !ok {
					continue
				}
				obj, _ := pkg.TypesInfo.Defs[fd.Name].(*types.Func)
				if obj == nil {
					continue
				}
				fi := &FuncInfo{Pkg: pkg, Decl: fd, Obj: obj, Name: funcQName(obj)}
				if _, dup := p.funcs[fi.Name]; !dup {
					p.funcs[fi.Name] = fi
				}
				p.byObj[obj] = fi
			}
		}
	}
}

// Func looks up "internal/config.parseRule" or "internal/parser.Parser.Parse".
func (p *Prog) Func(name string) *FuncInfo { return p.funcs[name] }

// FuncOf returns the FuncInfo of a resolved function object (generic
// instantiations are mapped to their origin).
func (p *Prog) FuncOf(fn *types.Func) *FuncInfo {
	if fn == nil {
		return nil
	}
	return p.byObj[fn.Origin()]
}

// AllFuncs returns every source function of the module, sorted by name.
func (p *Prog) AllFuncs() []*FuncInfo {
	out := make([]*FuncInfo, 0, len(p.funcs))
	for _, f := range p.byObj {
		out = append(out, f)
	}
	sort.Slice(out, func(i, j int) bool {
		if out[i].Name != out[j].Name {
			return out[i].Name < out[j].Name
		}
		return out[i].Decl.Pos() < out[j].Decl.Pos()
	})
	return out
}

// IsTestFile reports whether the position lies in a _test.go file.
func (p *Prog) IsTestFile(pos token.Pos) bool {
	return strings.HasSuffix(p.Fset.Position(pos).Filename, "_test.go")
}

// Pos renders a position relative to the repository root.
func (p *Prog) Pos(pos token.Pos) string {
	if !pos.IsValid() {
		return "-"
	}
	ps := p.Fset.Position(pos)
	fn := strings.TrimPrefix(ps.Filename, p.Repo+"/")
	return fmt.Sprintf("%s:%d", fn, ps.Line)
}

// LookupType finds a named type in a module-relative or external package.
func (p *Prog) LookupType(pkgRel, name string) *types.TypeName {
	pkg := p.Pkg(pkgRel)
	if pkg == nil || pkg.Types == nil {
		return nil
	}
	tn, _ := pkg.Types.Scope().Lookup(name).(*types.TypeName)
	return tn
}

// LookupObj finds any package-level object.
func (p *Prog) LookupObj(pkgRel, name string) types.Object {
	pkg := p.Pkg(pkgRel)
	if pkg == nil || pkg.Types == nil {
		return nil
	}
	return pkg.Types.Scope().Lookup(name)
}
