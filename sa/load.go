package main

import (
	"fmt"
	"go/ast"
	"go/printer"
	"go/token"
	"go/types"
	"os"
	"sort"
	"strings"

	"golang.org/x/tools/go/packages"
)

// ModPath is the module under analysis.
const ModPath = "github.com/cloudflare/pint"

// Prog is the type-checked program loaded from the working tree.
// inlineHost: code between From and To (a helper expanded in place) now lives in function Host.
type inlineHost struct {
	From, To token.Pos
	Host     *ast.FuncDecl
}

type Prog struct {
	inlineHosts []inlineHost
	inlinedAway map[*types.Func]bool // non-baseline helpers all of whose calls were expanded
	Inlined     int                  // calls of non-baseline helpers expanded in place
	Repo        string
	Fset        *token.FileSet
	Roots       []*packages.Package
	ByPath      map[string]*packages.Package
	Tags        string
	Tests       bool

	funcs   map[string]*FuncInfo // qualified name -> info
	byObj   map[*types.Func]*FuncInfo
	callers map[*types.Func][]CallSite
}

// FuncInfo is a source function or method of a module package.
type FuncInfo struct {
	Pkg  *packages.Package
	Decl *ast.FuncDecl
	Obj  *types.Func
	Name string // "pkg/path.Func" or "pkg/path.(T).Method" relative to the module
}

// CallSite is one resolved static call.
type CallSite struct {
	Caller *FuncInfo
	Call   *ast.CallExpr
	InGo   bool // directly the call of a go statement
	InLit  bool // lexically inside a function literal of Caller
}

// LoadProg loads and type-checks every package of the module in repo.
func LoadProg(repo string, tests bool, tags string, overlay map[string][]byte) (*Prog, error) {
	os.Unsetenv("GOWORK")
	os.Setenv("GOFLAGS", "-mod=mod")
	os.Setenv("GOPROXY", "off")
	fset := token.NewFileSet()
	cfg := &packages.Config{
		Mode:    packages.LoadAllSyntax,
		Dir:     repo,
		Fset:    fset,
		Tests:   tests,
		Overlay: overlay,
		Env:     append(os.Environ(), "GOWORK=off"),
	}
	if tags != "" {
		cfg.BuildFlags = []string{"-tags=" + tags}
	}
	pkgs, err := packages.Load(cfg, "./...", "github.com/prometheus/prometheus/model/rulefmt")
	if err != nil {
		return nil, fmt.Errorf("load: %w", err)
	}
	p := &Prog{Repo: repo, Fset: fset, ByPath: map[string]*packages.Package{}, Tags: tags, Tests: tests}
	var errs []string
	packages.Visit(pkgs, nil, func(pkg *packages.Package) {
		// With Tests=true several variants of one package exist; prefer the
		// variant with most files for lookups by path.
		if old, ok := p.ByPath[pkg.PkgPath]; !ok || len(pkg.Syntax) > len(old.Syntax) {
			p.ByPath[pkg.PkgPath] = pkg
		}
		if strings.HasPrefix(pkg.PkgPath, ModPath) {
			for _, e := range pkg.Errors {
				errs = append(errs, e.Error())
			}
		}
	})
	for _, pkg := range pkgs {
		if !strings.HasPrefix(pkg.PkgPath, ModPath) {
			continue
		}
		if strings.HasSuffix(pkg.PkgPath, ".test") {
			continue
		}
		p.Roots = append(p.Roots, pkg)
	}
	sort.Slice(p.Roots, func(i, j int) bool { return p.Roots[i].ID < p.Roots[j].ID })
	if len(errs) > 0 {
		return nil, fmt.Errorf("type errors in module packages: %s", strings.Join(errs, "; "))
	}
	if len(p.Roots) == 0 {
		return nil, fmt.Errorf("no module packages loaded from %s", repo)
	}
	if os.Getenv("PINTSA_NO_INLINE") == "" {
		p.Inlined = p.inlineNewHelpers()
	}
	p.normalise()
	p.index()
	c10Prog = p
	if q := os.Getenv("PINTSA_DUMP_FUNC"); q != "" {
		if fi := p.Func(q); fi != nil {
			fmt.Fprintf(os.Stderr, "---- %s (inlined calls in program: %d)\n", q, p.Inlined)
			printer.Fprint(os.Stderr, p.Fset, fi.Decl)
			fmt.Fprintln(os.Stderr)
		}
	}
	return p, nil
}

// normalise puts every `==` / `!=` comparison of the module into one operand
// order before any rule looks at it: the constant (or nil) operand on the
// right. `nil != x`, `"" == s` and `0 == len(v)` mean the same as their usual
// spelling and must not change a verdict. Only the X/Y pointers of the node are
// exchanged; node identity (and with it types.Info) is untouched.
func (p *Prog) normalise() {
	if os.Getenv("PINTSA_NO_PURETEMPS") == "" {
		normaliseMapLookups(p.ModPkgs())
		normaliseConstContains(p.ModPkgs())
	}
	for _, pkg := range p.ModPkgs() {
		info := pkg.TypesInfo
		constLike := func(e ast.Expr) bool {
			if tv, ok := info.Types[e]; ok && (tv.Value != nil || tv.IsNil()) {
				return true
			}
			// an untyped nil is recorded with the type of the other operand
			if id, ok := ast.Unparen(e).(*ast.Ident); ok && id.Name == "nil" {
				if _, isNil := info.Uses[id].(*types.Nil); isNil {
					return true
				}
			}
			return false
		}
		for _, f := range pkg.Syntax {
			ast.Inspect(f, func(n ast.Node) bool {
				if be, ok := n.(*ast.BinaryExpr); ok && (be.Op == token.EQL || be.Op == token.NEQ) {
					if constLike(be.X) && !constLike(be.Y) {
						be.X, be.Y = be.Y, be.X
					}
				}
				return true
			})
			if os.Getenv("PINTSA_NO_PURETEMPS") == "" {
				normaliseIndexLoops(info, pkg.Types, f)
				inlinePureTemps(info, f)
				normaliseCompare([]*packages.Package{pkg})
			}
			normaliseChains(f)
			retagSwitches(info, f)
			inlineCondTemps(info, f)
		}
	}
}

// ModPkgs returns one package per module import path (non-test variant
// preferred unless Tests is set, in which case the widest variant).
func (p *Prog) ModPkgs() []*packages.Package {
	seen := map[string]bool{}
	var out []*packages.Package
	for _, r := range p.Roots {
		path := strings.TrimSuffix(r.PkgPath, "_test")
		_ = path
		if seen[r.PkgPath] {
			continue
		}
		seen[r.PkgPath] = true
		out = append(out, p.ByPath[r.PkgPath])
	}
	return out
}

// Pkg returns the module package with the given module-relative path
// ("internal/checks", "cmd/pint"), or an external package by full path.
func (p *Prog) Pkg(rel string) *packages.Package {
	if pkg, ok := p.ByPath[ModPath+"/"+rel]; ok {
		return pkg
	}
	return p.ByPath[rel]
}

func relPkg(path string) string {
	return strings.TrimPrefix(strings.TrimPrefix(path, ModPath), "/")
}

func funcQName(fn *types.Func) string {
	sig := fn.Type().(*types.Signature)
	pkg := ""
	if fn.Pkg() != nil {
		pkg = relPkg(fn.Pkg().Path())
	}
	if recv := sig.Recv(); recv != nil {
		t := recv.Type()
		if pt, ok := t.(*types.Pointer); ok {
			t = pt.Elem()
		}
		name := "?"
		switch tt := t.(type) {
		case *types.Named:
			name = tt.Obj().Name()
		case *types.Alias:
			name = tt.Obj().Name()
		}
		return pkg + "." + name + "." + fn.Name()
	}
	return pkg + "." + fn.Name()
}

func (p *Prog) index() {
	p.funcs = map[string]*FuncInfo{}
	p.byObj = map[*types.Func]*FuncInfo{}
	for _, pkg := range p.ModPkgs() {
		for _, f := range pkg.Syntax {
			for _, d := range f.Decls {
				fd, ok := d.(*ast.FuncDecl)
				if !ok {
					continue
				}
				obj, _ := pkg.TypesInfo.Defs[fd.Name].(*types.Func)
				if obj == nil || p.inlinedAway[obj] {
					continue
				}
				fi := &FuncInfo{Pkg: pkg, Decl: fd, Obj: obj, Name: funcQName(obj)}
				if _, dup := p.funcs[fi.Name]; !dup {
					p.funcs[fi.Name] = fi
				}
				p.byObj[obj] = fi
			}
		}
	}
}

// Func looks up "internal/config.parseRule" or "internal/parser.Parser.Parse".
func (p *Prog) Func(name string) *FuncInfo { return p.funcs[name] }

// FuncOf returns the FuncInfo of a resolved function object (generic
// instantiations are mapped to their origin).
func (p *Prog) FuncOf(fn *types.Func) *FuncInfo {
	if fn == nil {
		return nil
	}
	return p.byObj[fn.Origin()]
}

// AllFuncs returns every source function of the module, sorted by name.
func (p *Prog) AllFuncs() []*FuncInfo {
	out := make([]*FuncInfo, 0, len(p.funcs))
	for _, f := range p.byObj {
		out = append(out, f)
	}
	sort.Slice(out, func(i, j int) bool {
		if out[i].Name != out[j].Name {
			return out[i].Name < out[j].Name
		}
		return out[i].Decl.Pos() < out[j].Decl.Pos()
	})
	return out
}

// IsTestFile reports whether the position lies in a _test.go file.
func (p *Prog) IsTestFile(pos token.Pos) bool {
	return strings.HasSuffix(p.Fset.Position(pos).Filename, "_test.go")
}

// Pos renders a position relative to the repository root.
func (p *Prog) Pos(pos token.Pos) string {
	if !pos.IsValid() {
		return "-"
	}
	ps := p.Fset.Position(pos)
	fn := strings.TrimPrefix(ps.Filename, p.Repo+"/")
	return fmt.Sprintf("%s:%d", fn, ps.Line)
}

// LookupType finds a named type in a module-relative or external package.
func (p *Prog) LookupType(pkgRel, name string) *types.TypeName {
	pkg := p.Pkg(pkgRel)
	if pkg == nil || pkg.Types == nil {
		return nil
	}
	tn, _ := pkg.Types.Scope().Lookup(name).(*types.TypeName)
	return tn
}

// LookupObj finds any package-level object.
func (p *Prog) LookupObj(pkgRel, name string) types.Object {
	pkg := p.Pkg(pkgRel)
	if pkg == nil || pkg.Types == nil {
		return nil
	}
	return pkg.Types.Scope().Lookup(name)
}

// normaliseChains gives `if a {A} else if b {B} else {D}` and
// `switch { case a: A; case b: B; default: D }` one shape: the tagless switch.
// A chain is rewritten when it has at least one `else if`, no link has an init
// statement, and no arm contains an unlabeled break of an enclosing loop (that
// break would change its target). Case expressions are unparenthesised and a
// top-level `x || y` is split into the case list `x, y` (same meaning in a
// tagless switch). The rules then see one form whichever way the code is written.
func normaliseChains(f *ast.File) {
	breaks := func(stmts []ast.Stmt) bool {
		found := false
		var walk func(n ast.Node)
		walk = func(n ast.Node) {
			ast.Inspect(n, func(m ast.Node) bool {
				switch x := m.(type) {
				case *ast.BranchStmt:
					if x.Tok == token.BREAK && x.Label == nil {
						found = true
					}
				case *ast.ForStmt, *ast.RangeStmt, *ast.SwitchStmt, *ast.TypeSwitchStmt, *ast.SelectStmt, *ast.FuncLit:
					return false
				}
				return true
			})
		}
		for _, st := range stmts {
			walk(st)
		}
		return found
	}
	var split func(e ast.Expr, out []ast.Expr) []ast.Expr
	split = func(e ast.Expr, out []ast.Expr) []ast.Expr {
		e = ast.Unparen(e)
		if be, ok := e.(*ast.BinaryExpr); ok && be.Op == token.LOR {
			return split(be.Y, split(be.X, out))
		}
		return append(out, e)
	}
	conv := func(ifs *ast.IfStmt) ast.Stmt {
		if _, chained := ifs.Else.(*ast.IfStmt); !chained {
			return nil
		}
		var clauses []ast.Stmt
		for cur := ifs; ; {
			if cur.Init != nil || breaks(cur.Body.List) {
				return nil
			}
			clauses = append(clauses, &ast.CaseClause{Case: cur.Cond.Pos(), List: split(cur.Cond, nil), Colon: cur.Body.Lbrace, Body: cur.Body.List})
			switch e := cur.Else.(type) {
			case *ast.IfStmt:
				cur = e
				continue
			case *ast.BlockStmt:
				if breaks(e.List) {
					return nil
				}
				clauses = append(clauses, &ast.CaseClause{Case: e.Lbrace, List: nil, Colon: e.Lbrace, Body: e.List})
			}
			break
		}
		return &ast.SwitchStmt{Switch: ifs.If, Body: &ast.BlockStmt{Lbrace: ifs.Body.Lbrace, List: clauses, Rbrace: ifs.End() - 1}}
	}
	rewrite := func(list []ast.Stmt) {
		for i, st := range list {
			if ifs, ok := st.(*ast.IfStmt); ok {
				if r := conv(ifs); r != nil {
					list[i] = r
				}
			}
		}
	}
	ast.Inspect(f, func(n ast.Node) bool {
		switch x := n.(type) {
		case *ast.BlockStmt:
			rewrite(x.List)
		case *ast.CaseClause:
			rewrite(x.Body)
		case *ast.CommClause:
			rewrite(x.Body)
		case *ast.SwitchStmt:
			if x.Tag == nil {
				for _, st := range x.Body.List {
					if cc, ok := st.(*ast.CaseClause); ok && cc.List != nil {
						var l []ast.Expr
						for _, e := range cc.List {
							l = split(e, l)
						}
						cc.List = l
					}
				}
			}
		}
		return true
	})
}

// inlineCondTemps gives `ok := f(x); if ok {…}` and `if f(x) {…}` one shape:
// a boolean local defined from a call by the statement directly in front of an
// `if` without init, used exactly once in the whole file and that once inside
// the if's condition, is replaced by the call (the definition becomes an empty
// statement). Evaluation order is unchanged because the two are adjacent.
func inlineCondTemps(info *types.Info, f *ast.File) {
	uses := map[types.Object]int{}
	ast.Inspect(f, func(n ast.Node) bool {
		if id, ok := n.(*ast.Ident); ok {
			if o := info.Uses[id]; o != nil {
				uses[o]++
			}
		}
		return true
	})
	var replace func(e *ast.Expr, o types.Object, with ast.Expr) bool
	replace = func(e *ast.Expr, o types.Object, with ast.Expr) bool {
		switch x := (*e).(type) {
		case *ast.Ident:
			if info.Uses[x] == o {
				*e = with
				return true
			}
		case *ast.ParenExpr:
			return replace(&x.X, o, with)
		case *ast.UnaryExpr:
			return replace(&x.X, o, with)
		case *ast.BinaryExpr:
			return replace(&x.X, o, with) || replace(&x.Y, o, with)
		}
		return false
	}
	rewrite := func(list []ast.Stmt) []ast.Stmt {
		var out []ast.Stmt
		for i := 0; i < len(list); i++ {
			out = append(out, list[i])
			if i+1 >= len(list) {
				continue
			}
			as, ok := list[i].(*ast.AssignStmt)
			if !ok || as.Tok != token.DEFINE || len(as.Lhs) != 1 || len(as.Rhs) != 1 {
				continue
			}
			id, ok := as.Lhs[0].(*ast.Ident)
			if !ok {
				continue
			}
			o := info.Defs[id]
			call, isCall := as.Rhs[0].(*ast.CallExpr)
			if o == nil || !isCall || uses[o] != 1 {
				continue
			}
			if b, isBasic := o.Type().Underlying().(*types.Basic); !isBasic || b.Kind() != types.Bool {
				continue
			}
			ifs, ok := list[i+1].(*ast.IfStmt)
			if !ok || ifs.Init != nil {
				continue
			}
			if replace(&ifs.Cond, o, call) {
				out = out[:len(out)-1]
			}
		}
		return out
	}
	// the same for `xs := f(…)` directly in front of `for … := range xs`, xs having no other use
	rewriteRange := func(list []ast.Stmt) []ast.Stmt {
		var out []ast.Stmt
		for i := 0; i < len(list); i++ {
			out = append(out, list[i])
			if i+1 >= len(list) {
				continue
			}
			as, ok := list[i].(*ast.AssignStmt)
			if !ok || as.Tok != token.DEFINE || len(as.Lhs) != 1 || len(as.Rhs) != 1 {
				continue
			}
			id, ok := as.Lhs[0].(*ast.Ident)
			if !ok {
				continue
			}
			o := info.Defs[id]
			call, isCall := as.Rhs[0].(*ast.CallExpr)
			rs, isRange := list[i+1].(*ast.RangeStmt)
			if o == nil || !isCall || !isRange || uses[o] != 1 {
				continue
			}
			if x, isID := ast.Unparen(rs.X).(*ast.Ident); isID && info.Uses[x] == o {
				rs.X = call
				out = out[:len(out)-1]
			}
		}
		return out
	}
	ast.Inspect(f, func(n ast.Node) bool {
		switch x := n.(type) {
		case *ast.BlockStmt:
			x.List = rewriteRange(rewrite(x.List))
		case *ast.CaseClause:
			x.Body = rewriteRange(rewrite(x.Body))
		case *ast.CommClause:
			x.Body = rewriteRange(rewrite(x.Body))
		}
		return true
	})
}

// retagSwitches turns a tagless switch all of whose case expressions compare
// one and the same call-free expression (or len(x)) with constants into the
// tagged switch on that expression: `switch { case len(m) == 0: … case len(m)
// == 1: … }` (or the if/else-if chain it was normalised from) and `switch
// len(m) { case 0: … case 1: … }` get one shape.
func retagSwitches(info *types.Info, f *ast.File) {
	simple := func(e ast.Expr) bool {
		ok := true
		ast.Inspect(e, func(n ast.Node) bool {
			switch x := n.(type) {
			case *ast.CallExpr:
				id, isID := x.Fun.(*ast.Ident)
				if !isID || (id.Name != "len" && id.Name != "cap") {
					ok = false
				}
			case *ast.FuncLit, *ast.CompositeLit, *ast.UnaryExpr:
				if u, isU := x.(*ast.UnaryExpr); !isU || u.Op == token.ARROW || u.Op == token.AND {
					ok = false
				}
			}
			return ok
		})
		return ok
	}
	ast.Inspect(f, func(n ast.Node) bool {
		sw, ok := n.(*ast.SwitchStmt)
		if !ok || sw.Tag != nil || sw.Init != nil || len(sw.Body.List) < 2 {
			return true
		}
		var tag ast.Expr
		tagID := ""
		nCases := 0
		for _, st := range sw.Body.List {
			cc := st.(*ast.CaseClause)
			for _, e := range cc.List {
				be, isBin := ast.Unparen(e).(*ast.BinaryExpr)
				if !isBin || be.Op != token.EQL {
					return true
				}
				tv, isConst := info.Types[be.Y]
				if !isConst || tv.Value == nil || !simple(be.X) {
					return true
				}
				id := exprIdentity(info, be.X)
				if tag == nil {
					tag, tagID = be.X, id
				} else if id != tagID {
					return true
				}
				nCases++
			}
		}
		if tag == nil || nCases < 2 {
			return true
		}
		for _, st := range sw.Body.List {
			cc := st.(*ast.CaseClause)
			for i, e := range cc.List {
				cc.List[i] = ast.Unparen(e).(*ast.BinaryExpr).Y
			}
		}
		sw.Tag = tag
		return true
	})
}
