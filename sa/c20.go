package main

import (
	"fmt"
	"go/ast"
	"go/token"
	"go/types"
	"os"
	"strings"
)

func init() {
	register("C20", runC20,
		"Decides the structural clauses of the rule/dependency report for all rule sets: (R1) among all Meta() state lists `Removed` occurs only for ErrorCheck and RuleDependencyCheck, and the latter lists nothing else; (R2) RuleDependencyCheck.Check uses its `entries` argument only through nonRemovedEntries, which drops removed, path-error and rule-error entries (otherwise the removed rule is its own replacement); (R3) the replacement test precedes the dependant scan on all paths, dependants are de-duplicated and sorted before rendering, and the problem is emitted only with a non-empty list; (R4) checkRules dispatches every check returned by GetChecksForEntry with the full entry list, skips only removed entries that carry errors, and scanWorker forwards every problem; (R5) the functions that match a selector against the removed rule's name also honour a `__name__` equality matcher.",
		"removed-state detection itself (C03), PromQL parsing of dependants, that String()/Name() of rules are what users see.")
}

// metaStates extracts the discovery.ChangeType constants of a Meta() literal.
func metaStates(meta *FuncInfo) ([]string, bool) {
	lits := compositeLits(meta.Pkg.TypesInfo, meta.Decl.Body, "internal/checks.CheckMeta")
	if len(lits) != 1 {
		return nil, false
	}
	v := litField(lits[0], "States")
	cl, ok := v.(*ast.CompositeLit)
	if !ok {
		return nil, false
	}
	var out []string
	for _, el := range cl.Elts {
		k := constObj(meta.Pkg.TypesInfo, el)
		if k == nil {
			return nil, false
		}
		out = append(out, k.Name())
	}
	return out, true
}

func runC20(c *Ctx) {
	p := c.P
	c.Rule("C20-R1", "Removed state only for ErrorCheck and RuleDependencyCheck", 28)
	defer c20BothVersionsAreRead(c, "C20-R1")
	c.Rule("C20-R2", "dependency check sees only the filtered (non-removed, error-free) entries", 5)
	c.Rule("C20-R3", "replacement test before scan; every rule and selector scanned; dedup and sort before rendering; emitted only when non-empty", 9)
	c.Rule("C20-R4", "every configured check is dispatched with the full entry list; every problem forwarded", 8)
	c.Rule("C20-R5", "selector-name comparisons honour the __name__ matcher", 2)

	// ---- R1 ----
	for _, tn := range checkerTypes(c, "C20-R1") {
		tq := typeQName(tn.Type())
		meta := p.methodOn(tq, "Meta")
		if meta == nil {
			c.Undecided("C20-R1", "meta:"+tq, tn.Pos(), "no Meta method")
			continue
		}
		states, ok := metaStates(meta)
		if !ok {
			c.Undecided("C20-R1", "meta:"+tq, meta.Decl.Pos(), "Meta() is not a single literal with a constant States list")
			continue
		}
		hasRemoved := false
		for _, s := range states {
			if s == "Removed" {
				hasRemoved = true
			}
		}
		switch tq {
		case "internal/checks.RuleDependencyCheck":
			c.Check(len(states) == 1 && hasRemoved, "C20-R1", "states:"+tq, meta.Decl.Pos(), "[Removed]", "rule/dependency runs for states ["+strings.Join(states, ",")+"], must be exactly [Removed]")
		case "internal/checks.ErrorCheck":
			c.Ok("C20-R1", "states:"+tq, meta.Decl.Pos(), strings.Join(states, ","))
		default:
			c.Check(!hasRemoved, "C20-R1", "states:"+tq, meta.Decl.Pos(), strings.Join(states, ","), tq+" runs on removed rules (reports on content that no longer exists)")
		}
	}
	// parsedRule.isEnabled gates on Meta().States
	if pie := c.MustFunc("C20-R1", "internal/config.parsedRule.isEnabled"); pie != nil {
		info := pie.Pkg.TypesInfo
		fl := p.NewFlow(pie)
		gate := false
		for _, b := range fl.G.Blocks {
			cond, _, ok := fl.condOf(b)
			if !ok {
				continue
			}
			ast.Inspect(cond, func(n ast.Node) bool {
				if call, ok := n.(*ast.CallExpr); ok {
					if fn := Callee(info, call); fn != nil && fn.Pkg() != nil && fn.Pkg().Path() == "slices" && fn.Name() == "Contains" && len(call.Args) == 2 {
						if sel, ok := call.Args[0].(*ast.SelectorExpr); ok && sel.Sel.Name == "States" && fieldSel(info, call.Args[1], "internal/discovery.Entry", "State") {
							gate = true
						}
					}
				}
				return true
			})
		}
		c.Check(gate, "C20-R1", "parsedRule.isEnabled gates on Meta().States", pie.Decl.Pos(), "state gate present", "the entry state is no longer tested against the check's Meta().States")
	}

	// removed-state detection relies on kind-aware pairing (shared with C03-R3)
	c03Pairing(c, "C20-R1")
	c03DecisionTable(c, "C20-R1")

	// ---- R2 ----
	chk := c.MustFunc("C20-R2", "internal/checks.RuleDependencyCheck.Check")
	if chk != nil {
		info := chk.Pkg.TypesInfo
		sig := chk.Obj.Type().(*types.Signature)
		entries := sig.Params().At(2)
		pm := parentMap(chk.Decl.Body)
		n, bad := 0, ""
		ast.Inspect(chk.Decl.Body, func(nd ast.Node) bool {
			id, ok := nd.(*ast.Ident)
			if !ok || info.Uses[id] != entries {
				return true
			}
			n++
			call, isCall := pm[id].(*ast.CallExpr)
			if !isCall || !isCallTo(info, call, "internal/checks.nonRemovedEntries") {
				bad = p.Pos(id.Pos())
			}
			return true
		})
		c.Check(n >= 1 && bad == "", "C20-R2", "Check:entries used only via nonRemovedEntries", chk.Decl.Pos(), itoa(n)+" use(s)", "the raw entry list (including removed rules) is used directly at "+bad)
	}
	if nre := c.MustFunc("C20-R2", "internal/checks.nonRemovedEntries"); nre != nil {
		info := nre.Pkg.TypesInfo
		fl := p.NewFlow(nre)
		apps := fl.Find(func(n ast.Node) bool {
			as, ok := n.(*ast.AssignStmt)
			if !ok || len(as.Rhs) != 1 {
				return false
			}
			call, ok := as.Rhs[0].(*ast.CallExpr)
			return ok && exprStr(call.Fun) == "append"
		})
		c.Check(len(apps) == 1, "C20-R2", "nonRemovedEntries:single append", nre.Decl.Pos(), "one append", itoa(len(apps))+" appends")
		for _, a := range apps {
			type guard struct {
				name string
				est  func(Atom) bool
			}
			guards := []guard{
				{"State != Removed", func(at Atom) bool {
					be, ok := ast.Unparen(at.E).(*ast.BinaryExpr)
					if !ok || at.Tag != nil || !fieldSel(info, be.X, "internal/discovery.Entry", "State") {
						return false
					}
					k := constObj(info, be.Y)
					return k != nil && k.Name() == "Removed" && ((be.Op == token.EQL && !at.Truth) || (be.Op == token.NEQ && at.Truth))
				}},
				{"PathError == nil", func(at Atom) bool {
					x, isNil, ok := nilAtom(info, at)
					return ok && isNil && fieldSel(info, x, "internal/discovery.Entry", "PathError")
				}},
				{"Rule.Error.Err == nil", func(at Atom) bool {
					x, isNil, ok := nilAtom(info, at)
					return ok && isNil && fieldSel(info, x, "internal/parser.ParseError", "Err")
				}},
			}
			for _, g := range guards {
				c.Check(fl.Dominated(a.Site, nil, g.est), "C20-R2", "nonRemovedEntries:keeps only "+g.name, a.Inner.Pos(), "filtered", "entries violating `"+g.name+"` are no longer filtered out")
			}
		}
	}

	// ---- R3 ----
	if os.Getenv("PINTSA_DUMP_FLAGS") != "" {
		dumpSearchFlags(c)
	}
	checkSearchFlags(c, "C20-R3", "internal/checks.RuleDependencyCheck.Check")
	c20RemovedRulesNeedNoFile(c, "C20-R4")
	c20EverySelectorReturned(c, "C20-R3")
	c20Round5(c)
	c20TreeComplete(c, "C20-R3")
	if chk != nil {
		info := chk.Pkg.TypesInfo
		fl := p.NewFlow(chk)
		pm := parentMap(chk.Decl.Body)
		// replacement comparison: Type()==Type() && Name()==Name()
		// (both comparisons guard the return, as one condition or as nested ifs)
		bothCalls := func(e ast.Expr, q string) bool {
			be, ok := ast.Unparen(e).(*ast.BinaryExpr)
			if !ok || be.Op != token.EQL {
				return false
			}
			cx, okx := ast.Unparen(be.X).(*ast.CallExpr)
			cy, oky := ast.Unparen(be.Y).(*ast.CallExpr)
			return okx && oky && isCallTo(info, cx, q) && isCallTo(info, cy, q)
		}
		var replLoop *ast.RangeStmt
		ast.Inspect(chk.Decl.Body, func(n ast.Node) bool {
			rs, ok := n.(*ast.RangeStmt)
			if !ok || rs.Body == nil {
				return true
			}
			for _, ret := range returnsIn(rs.Body.List) {
				hasType, hasName := false, false
				for _, g := range lexicalGuards(pm, ret, rs.Body) {
					if !g.Truth || g.Tag != nil {
						continue
					}
					if bothCalls(g.E, "internal/parser.Rule.Type") {
						hasType = true
					}
					if bothCalls(g.E, "internal/parser.Rule.Name") {
						hasName = true
					}
				}
				if hasType && hasName && replLoop == nil {
					replLoop = rs
				}
			}
			return true
		})
		// the same test written with the standard library:
		// if slices.ContainsFunc(list, func(o Entry) bool { return type == type && name == name }) { return }
		if replLoop == nil {
			ast.Inspect(chk.Decl.Body, func(n ast.Node) bool {
				ifs, ok := n.(*ast.IfStmt)
				if !ok || replLoop != nil {
					return true
				}
				call, ok := ast.Unparen(ifs.Cond).(*ast.CallExpr)
				if !ok || len(call.Args) != 2 || len(returnsIn(ifs.Body.List)) == 0 {
					return true
				}
				fn := Callee(info, call)
				lit, isLit := call.Args[1].(*ast.FuncLit)
				if fn == nil || fn.Pkg() == nil || fn.Pkg().Path() != "slices" || fn.Name() != "ContainsFunc" || !isLit {
					return true
				}
				hasType, hasName := false, false
				ast.Inspect(lit.Body, func(m ast.Node) bool {
					if e, ok := m.(ast.Expr); ok {
						if bothCalls(e, "internal/parser.Rule.Type") {
							hasType = true
						}
						if bothCalls(e, "internal/parser.Rule.Name") {
							hasName = true
						}
					}
					return true
				})
				// both must be required: a conjunction in the single return of the closure
				conj := false
				if rets := returnsIn(lit.Body.List); len(rets) == 1 && len(rets[0].Results) == 1 {
					n := 0
					for _, a := range implied(rets[0].Results[0], nil, true) {
						if bothCalls(a.E, "internal/parser.Rule.Type") || bothCalls(a.E, "internal/parser.Rule.Name") {
							n++
						}
					}
					conj = n == 2
				}
				if hasType && hasName && conj {
					// stands in for the loop: X is the list that is searched
					replLoop = &ast.RangeStmt{For: ifs.Pos(), X: call.Args[0], Body: ifs.Body}
				}
				return true
			})
		}
		c.Check(replLoop != nil, "C20-R3", "Check:replacement test (same type and name) returns early", chk.Decl.Pos(), "present", "no early return when another rule with the same type and name remains")
		scans := fl.FindCalls("internal/checks.RuleDependencyCheck.usesVector", "internal/checks.RuleDependencyCheck.usesAlert")
		c.Check(len(scans) == 2, "C20-R3", "Check:scans with usesVector and usesAlert", chk.Decl.Pos(), "both scans", itoa(len(scans))+" scan call(s) found")
		if replLoop != nil {
			for _, s := range scans {
				target := s.Site
				ok, _ := fl.MustPass(fl.Entry(), func(x Site) bool { return x == target }, false, func(n ast.Node) bool {
					found := false
					ast.Inspect(n, func(m ast.Node) bool {
						if m == ast.Node(replLoop.X) {
							found = true
						}
						return !found
					})
					return found
				})
				c.Check(ok, "C20-R3", "Check:replacement test precedes "+calleeName(info, s.Inner.(*ast.CallExpr)), s.Inner.Pos(), "ordered", "the dependant scan can run before the replacement test")
			}
			// the replacement loop ranges over the filtered list
			if fobj := objOf(info, replLoop.X); fobj != nil {
				fromFilter := false
				ast.Inspect(chk.Decl.Body, func(n ast.Node) bool {
					if as, ok := n.(*ast.AssignStmt); ok && len(as.Rhs) == 1 && objOf(info, as.Lhs[0]) == fobj {
						if call, ok := as.Rhs[0].(*ast.CallExpr); ok && isCallTo(info, call, "internal/checks.nonRemovedEntries") {
							fromFilter = true
						}
					}
					return true
				})
				c.Check(fromFilter, "C20-R3", "Check:replacement test over the filtered list", replLoop.Pos(), "filtered", "replacement candidates are not the nonRemovedEntries result")
			}
		}
		// problem emission
		emits := fl.Find(func(n ast.Node) bool {
			cl, ok := n.(*ast.CompositeLit)
			return ok && typeQName(info.TypeOf(cl)) == "internal/checks.Problem"
		})
		c.Check(len(emits) == 1, "C20-R3", "Check:single problem literal", chk.Decl.Pos(), "one", itoa(len(emits))+" Problem literals")
		var brokenObj types.Object
		ast.Inspect(chk.Decl.Body, func(n ast.Node) bool {
			if vs, ok := n.(*ast.ValueSpec); ok && len(vs.Names) == 1 && strings.HasPrefix(info.TypeOf(vs.Names[0]).String(), "[]*") {
				brokenObj = info.Defs[vs.Names[0]]
			}
			return true
		})
		for _, e := range emits {
			target := e.Site
			if brokenObj == nil {
				c.Undecided("C20-R3", "Check:dependant list variable", chk.Decl.Pos(), "could not identify the dependant list")
				break
			}
			nonEmpty := fl.Dominated(e.Site, nil, func(at Atom) bool {
				be, ok := ast.Unparen(at.E).(*ast.BinaryExpr)
				if !ok || at.Tag != nil {
					return false
				}
				call, ok := be.X.(*ast.CallExpr)
				if !ok || exprStr(call.Fun) != "len" || objOf(info, call.Args[0]) != brokenObj {
					return false
				}
				k, isC := constInt(info, be.Y)
				return isC && k == 0 && ((be.Op == token.EQL && !at.Truth) || ((be.Op == token.GTR || be.Op == token.NEQ) && at.Truth))
			})
			c.Check(nonEmpty, "C20-R3", "Check:problem only with dependants", e.Inner.Pos(), "guarded by len(broken) != 0", "a rule/dependency problem can be emitted with no dependant")
			sorted, _ := fl.MustPass(fl.Entry(), func(x Site) bool { return x == target }, false, func(n ast.Node) bool {
				found := false
				inspectNoLit(n, func(m ast.Node) bool {
					if call, ok := m.(*ast.CallExpr); ok {
						if fn := Callee(info, call); fn != nil && fn.Pkg() != nil && (fn.Pkg().Path() == "slices" || fn.Pkg().Path() == "sort") && strings.HasPrefix(fn.Name(), "Sort") && len(call.Args) > 0 && objOf(info, call.Args[0]) == brokenObj {
							found = true
						}
					}
					return true
				})
				return found
			})
			c.Check(sorted, "C20-R3", "Check:dependants sorted before rendering", e.Inner.Pos(), "sorted", "the dependant list is rendered without sorting (order depends on entry order)")
		}
		// dedup
		if brokenObj != nil {
			apps := fl.Find(func(n ast.Node) bool {
				as, ok := n.(*ast.AssignStmt)
				if !ok || len(as.Rhs) != 1 || objOf(info, as.Lhs[0]) != brokenObj {
					return false
				}
				call, ok := as.Rhs[0].(*ast.CallExpr)
				return ok && exprStr(call.Fun) == "append"
			})
			for _, a := range apps {
				dd := fl.Dominated(a.Site, nil, func(at Atom) bool {
					// `!found`, or the scan itself: !slices.ContainsFunc(broken, …)
					if call, isCall := ast.Unparen(at.E).(*ast.CallExpr); isCall && !at.Truth && at.Tag == nil && len(call.Args) == 2 {
						if fn := Callee(info, call); fn != nil && fn.Pkg() != nil && fn.Pkg().Path() == "slices" && (fn.Name() == "ContainsFunc" || fn.Name() == "Contains") && objOf(info, call.Args[0]) == brokenObj {
							return true
						}
					}
					id, ok := ast.Unparen(at.E).(*ast.Ident)
					return ok && !at.Truth && info.TypeOf(id).String() == "bool"
				})
				c.Check(dd, "C20-R3", "Check:dependants de-duplicated", a.Inner.Pos(), "guarded by !found", "dependants are appended without the duplicate test")
			}
		}
	}

	// every filtered entry is scanned: nothing skips an iteration before the usesVector/usesAlert calls
	if chk != nil {
		info := chk.Pkg.TypesInfo
		pm := parentMap(chk.Decl.Body)
		var scanLoop *ast.RangeStmt
		var firstScan token.Pos
		ast.Inspect(chk.Decl.Body, func(n ast.Node) bool {
			call, ok := n.(*ast.CallExpr)
			if !ok || !isCallTo(info, call, "internal/checks.RuleDependencyCheck.usesVector", "internal/checks.RuleDependencyCheck.usesAlert") {
				return true
			}
			if firstScan == token.NoPos || call.Pos() < firstScan {
				firstScan = call.Pos()
			}
			for cur := pm[call]; cur != nil; cur = pm[cur] {
				if rs, ok := cur.(*ast.RangeStmt); ok {
					scanLoop = rs
					break
				}
			}
			return true
		})
		if scanLoop == nil {
			c.Undecided("C20-R3", "Check:scan loop", chk.Decl.Pos(), "scan loop not found")
		} else {
			bad := ""
			ast.Inspect(scanLoop.Body, func(n ast.Node) bool {
				if b, ok := n.(*ast.BranchStmt); ok && b.Pos() < firstScan && b.Tok != token.FALLTHROUGH {
					bad = c.P.Pos(b.Pos())
				}
				if r, ok := n.(*ast.ReturnStmt); ok && r.Pos() < firstScan {
					bad = c.P.Pos(r.Pos())
				}
				return true
			})
			c.Check(bad == "", "C20-R3", "Check:every remaining rule is scanned for a dependency", scanLoop.Pos(), "no skip before the scan", "a remaining rule can be skipped at "+bad+" before it is scanned (a dependant is neither counted nor listed)")
		}
	}
	// the per-rule scans look at every selector: no negative result from inside the selector loop
	for _, fn := range []string{"internal/checks.RuleDependencyCheck.usesVector", "internal/checks.RuleDependencyCheck.usesAlert"} {
		fi := c.MustFunc("C20-R3", fn)
		if fi == nil {
			continue
		}
		finfo := fi.Pkg.TypesInfo
		var loop *ast.RangeStmt
		ast.Inspect(fi.Decl.Body, func(n ast.Node) bool {
			if rs, ok := n.(*ast.RangeStmt); ok && loop == nil {
				if call, ok := singleDef(finfo, fi.Decl.Body, rs.X).(*ast.CallExpr); ok && isCallTo(finfo, call, "internal/parser/utils.HasVectorSelector") {
					loop = rs
				}
			}
			return true
		})
		short := fn[strings.LastIndex(fn, ".")+1:]
		if loop == nil {
			c.Bad("C20-R3", short+":ranges over every selector of the expression", fi.Decl.Pos(), "no loop over utils.HasVectorSelector(expr.Query)")
			continue
		}
		bad := ""
		for _, r := range returnsIn(loop.Body.List) {
			if len(r.Results) == 1 && isNilIdent(finfo, r.Results[0]) {
				bad = c.P.Pos(r.Pos())
			}
		}
		inspectNoLit(loop.Body, func(n ast.Node) bool {
			if b, ok := n.(*ast.BranchStmt); ok && b.Tok == token.BREAK {
				// a break directly in the selector loop (not in an inner loop) stops the search
				pm := parentMap(loop)
				for cur := pm[b]; cur != nil; cur = pm[cur] {
					if cur == ast.Node(loop) {
						bad = c.P.Pos(b.Pos())
						break
					}
					if _, inner := cur.(*ast.RangeStmt); inner {
						break
					}
					if _, inner := cur.(*ast.ForStmt); inner {
						break
					}
				}
			}
			return true
		})
		c.Check(bad == "", "C20-R3", short+":search over selectors is exhaustive", loop.Pos(), "only a positive result leaves the loop", "the selector loop gives up at "+bad+" before all selectors were examined (a dependency through a later selector is missed)")
	}

	// ---- R4 ----
	c20Dispatch(c)

	// ---- R5 ----
	for _, fn := range []string{"internal/checks.RuleDependencyCheck.usesVector", "internal/checks.RuleDependencyCheck.usesAlert"} {
		fi := c.MustFunc("C20-R5", fn)
		if fi == nil {
			continue
		}
		short := fn[strings.LastIndex(fn, ".")+1:]
		ok := honoursMetricNameMatcher(p, fi, 0)
		c.Check(ok, "C20-R5", short+":selector name honours __name__ matcher", fi.Decl.Pos(), "handles nameless selectors",
			short+" compares VectorSelector.Name only: a dependant written as {__name__=\"foo\"} is not listed when `foo` is removed (promql/series treats such selectors as named)")
	}
}

// honoursMetricNameMatcher: fi (or a module callee, depth<=2) mentions the
// constant "__name__" (labels.MetricName / model.MetricNameLabel).
func honoursMetricNameMatcher(p *Prog, fi *FuncInfo, depth int) bool {
	if fi == nil || fi.Decl.Body == nil || depth > 2 {
		return false
	}
	info := fi.Pkg.TypesInfo
	found := false
	ast.Inspect(fi.Decl.Body, func(n ast.Node) bool {
		if found {
			return false
		}
		if e, ok := n.(ast.Expr); ok {
			if s, ok := constString(info, e); ok && s == "__name__" {
				found = true
			}
		}
		if call, ok := n.(*ast.CallExpr); ok {
			if fn := Callee(info, call); fn != nil {
				if callee := p.FuncOf(fn); callee != nil && callee != fi && strings.HasPrefix(callee.Name, "internal/checks.") {
					if honoursMetricNameMatcher(p, callee, depth+1) {
						found = true
					}
				}
			}
		}
		return true
	})
	return found
}

func c20Dispatch(c *Ctx) { c20DispatchR(c, "C20-R4") }

// c20DispatchR: the dispatch rules of checkRules under the rule id R (C20-R4; C03-R5 shares them:
// a correctly classified rule that is never scheduled is as good as misclassified).
func c20DispatchR(c *Ctx, R string) {
	p := c.P
	cr := c.MustFunc(R, "cmd/pint.checkRules")
	if cr == nil {
		return
	}
	info := cr.Pkg.TypesInfo
	sig := cr.Obj.Type().(*types.Signature)
	entries := sig.Params().At(paramIndex(sig, "entries"))
	// the goroutine literal that ranges over entries
	var lit *ast.FuncLit
	var loop *ast.RangeStmt
	ast.Inspect(cr.Decl.Body, func(n ast.Node) bool {
		fl, ok := n.(*ast.FuncLit)
		if !ok {
			return true
		}
		ast.Inspect(fl.Body, func(m ast.Node) bool {
			if rs, ok := m.(*ast.RangeStmt); ok && objOf(info, rs.X) == entries {
				lit, loop = fl, rs
			}
			return true
		})
		return true
	})
	if loop == nil {
		c.Undecided(R, "checkRules:dispatch loop", cr.Decl.Pos(), "no function literal ranging over entries")
		return
	}
	flow := p.NewFlowLit(cr, lit)
	entryV, _ := loop.Value.(*ast.Ident)
	var entryObj types.Object
	if entryV != nil {
		entryObj = info.Defs[entryV]
	}
	// sends
	sends := flow.Find(func(n ast.Node) bool { _, ok := n.(*ast.SendStmt); return ok })
	c.Check(len(sends) == 1, R, "checkRules:one send to jobs", loop.Pos(), "single dispatch site", itoa(len(sends))+" sends")
	for _, s := range sends {
		send := s.Inner.(*ast.SendStmt)
		cl, ok := send.Value.(*ast.CompositeLit)
		if !ok {
			c.Undecided(R, "checkRules:scanJob literal", send.Pos(), "send value is not a literal")
			continue
		}
		allE, ent, chkF := litField(cl, "allEntries"), litField(cl, "entry"), litField(cl, "check")
		c.Check(allE != nil && objOf(info, allE) == entries, R, "checkRules:job carries the full entry list", cl.Pos(), "allEntries: entries", "scan jobs no longer carry the full entry list (dependants cannot be found)")
		c.Check(ent != nil && objOf(info, ent) == entryObj, R, "checkRules:job carries the ranged entry", cl.Pos(), "entry: entry", "scan job entry is not the ranged entry")
		// check comes from ranging GetChecksForEntry(ctx, gen, entry)
		okChk := false
		if chkF != nil {
			pm := parentMap(lit.Body)
			for cur := pm[send]; cur != nil; cur = pm[cur] {
				if rs, isR := cur.(*ast.RangeStmt); isR {
					if v, isID := rs.Value.(*ast.Ident); isID && info.Defs[v] == objOf(info, chkF) {
						lst := objOf(info, rs.X)
						// `for _, check := range cfg.GetChecksForEntry(ctx, gen, entry)` without a variable in between
						if call, ok := ast.Unparen(rs.X).(*ast.CallExpr); ok && isCallTo(info, call, "internal/config.Config.GetChecksForEntry") {
							okChk = len(call.Args) == 3 && objOf(info, call.Args[2]) == entryObj
						}
						ast.Inspect(lit.Body, func(n ast.Node) bool {
							if lst == nil {
								return false
							}
							if as, ok := n.(*ast.AssignStmt); ok && len(as.Rhs) == 1 && objOf(info, as.Lhs[0]) == lst {
								if call, ok := as.Rhs[0].(*ast.CallExpr); ok && isCallTo(info, call, "internal/config.Config.GetChecksForEntry") {
									okChk = len(call.Args) == 3 && objOf(info, call.Args[2]) == entryObj
								}
							}
							return true
						})
						// no skip inside this inner loop before the send
						for _, st := range rs.Body.List {
							if st == send {
								break
							}
							inspectNoLit(st, func(n ast.Node) bool {
								if b, ok := n.(*ast.BranchStmt); ok && b.Tok != token.FALLTHROUGH {
									okChk = false
								}
								return true
							})
						}
					}
					break
				}
			}
		}
		c.Check(okChk, R, "checkRules:every check of GetChecksForEntry(entry) is sent", cl.Pos(), "unconditional send per check", "a check returned by GetChecksForEntry can be skipped, or the list is not computed for the ranged entry")
	}
	// skips: every continue directly in the entries loop is implied by State == Removed
	pm := parentMap(lit.Body)
	nSkips := 0
	ast.Inspect(loop.Body, func(n ast.Node) bool {
		b, ok := n.(*ast.BranchStmt)
		if !ok || b.Tok != token.CONTINUE {
			return true
		}
		// innermost enclosing loop must be `loop`
		for cur := pm[b]; cur != nil; cur = pm[cur] {
			if rs, isR := cur.(*ast.RangeStmt); isR {
				if rs != loop {
					return true
				}
				break
			}
			if _, isF := cur.(*ast.ForStmt); isF {
				return true
			}
		}
		nSkips++
		removed, hasErr := false, false
		for _, at := range lexicalGuards(pm, b, loop) {
			if be, ok := ast.Unparen(at.E).(*ast.BinaryExpr); ok && at.Tag == nil && at.Truth && be.Op == token.EQL && fieldSel(info, be.X, "internal/discovery.Entry", "State") {
				if k := constObj(info, be.Y); k != nil && k.Name() == "Removed" {
					removed = true
				}
			}
			if x, isNil, ok := nilAtom(info, at); ok && !isNil && (fieldSel(info, x, "internal/discovery.Entry", "PathError") || fieldSel(info, x, "internal/parser.ParseError", "Err")) {
				hasErr = true
			}
			// `PathError != nil || Rule.Error.Err != nil`: every alternative is an error
			if at.Truth && at.Tag == nil {
				var allErr func(e ast.Expr) bool
				allErr = func(e ast.Expr) bool {
					e = ast.Unparen(e)
					if be, ok := e.(*ast.BinaryExpr); ok && be.Op == token.LOR {
						return allErr(be.X) && allErr(be.Y)
					}
					if be, ok := e.(*ast.BinaryExpr); ok && be.Op == token.LAND {
						return allErr(be.X) || allErr(be.Y)
					}
					x, isNil, ok := nilAtom(info, Atom{E: e, Truth: true})
					return ok && !isNil && (fieldSel(info, x, "internal/discovery.Entry", "PathError") || fieldSel(info, x, "internal/parser.ParseError", "Err"))
				}
				if be, ok := ast.Unparen(at.E).(*ast.BinaryExpr); ok && be.Op == token.LOR && allErr(be) {
					hasErr = true
				}
			}
		}
		if !(removed && hasErr) {
			// `case A && R, B && R:` — decide every alternative of the innermost case list on its own
			for cur := pm[ast.Node(b)]; cur != nil && cur != ast.Node(loop); cur = pm[cur] {
				cc, isCase := cur.(*ast.CaseClause)
				if !isCase || len(cc.List) < 2 {
					continue
				}
				var alts []ast.Expr
				var split func(e ast.Expr)
				split = func(e ast.Expr) {
					if be, ok := ast.Unparen(e).(*ast.BinaryExpr); ok && be.Op == token.LOR {
						split(be.X)
						split(be.Y)
						return
					}
					alts = append(alts, e)
				}
				for _, e := range cc.List {
					split(e)
				}
				all := len(alts) > 0
				for _, alt := range alts {
					r, e := removed, hasErr
					for _, at := range implied(alt, nil, true) {
						if be, ok := ast.Unparen(at.E).(*ast.BinaryExpr); ok && at.Truth && be.Op == token.EQL && fieldSel(info, be.X, "internal/discovery.Entry", "State") {
							if k := constObj(info, be.Y); k != nil && k.Name() == "Removed" {
								r = true
							}
						}
						if x, isNil, ok := nilAtom(info, at); ok && !isNil && (fieldSel(info, x, "internal/discovery.Entry", "PathError") || fieldSel(info, x, "internal/parser.ParseError", "Err")) {
							e = true
						}
					}
					if !r || !e {
						all = false
					}
				}
				if all {
					removed, hasErr = true, true
				}
				break
			}
		}
		c.Check(removed && hasErr, R, "checkRules:skip only removed entries with errors", b.Pos(), "guarded by State==Removed and an error", "an entry can be skipped without being both removed and erroneous")
		return true
	})
	c.Check(nSkips <= 2, R, "checkRules:at most the two documented skips", loop.Pos(), itoa(nSkips)+" skip(s)", itoa(nSkips)+" skip sites in the dispatch loop")

	// scanWorker forwards every problem
	if sw := c.MustFunc(R, "cmd/pint.scanWorker"); sw != nil {
		winfo := sw.Pkg.TypesInfo
		var probLoop *ast.RangeStmt
		var probs types.Object
		ast.Inspect(sw.Decl.Body, func(n ast.Node) bool {
			if as, ok := n.(*ast.AssignStmt); ok && len(as.Rhs) == 1 {
				if call, ok := as.Rhs[0].(*ast.CallExpr); ok {
					if sel, ok := call.Fun.(*ast.SelectorExpr); ok && sel.Sel.Name == "Check" && len(call.Args) == 3 {
						probs = objOf(winfo, as.Lhs[0])
						okArgs := fieldSel(winfo, call.Args[1], "cmd/pint.scanJob", "entry") && fieldSel(winfo, call.Args[2], "cmd/pint.scanJob", "allEntries")
						c.Check(okArgs, R, "scanWorker:Check(ctx, job.entry, job.allEntries)", call.Pos(), "arguments from the job", "Check is not called with the job's entry and full entry list")
					}
				}
			}
			return true
		})
		ast.Inspect(sw.Decl.Body, func(n ast.Node) bool {
			if rs, ok := n.(*ast.RangeStmt); ok && probs != nil && objOf(winfo, rs.X) == probs {
				probLoop = rs
			}
			return true
		})
		ok := false
		if probLoop != nil && len(probLoop.Body.List) == 1 {
			if send, isSend := probLoop.Body.List[0].(*ast.SendStmt); isSend {
				if cl, isLit := send.Value.(*ast.CompositeLit); isLit {
					v, _ := probLoop.Value.(*ast.Ident)
					pf := litField(cl, "Problem")
					ok = v != nil && pf != nil && objOf(winfo, pf) == winfo.Defs[v]
				}
			}
		}
		c.Check(ok, R, "scanWorker:every problem is forwarded", sw.Decl.Pos(), "unconditional send per problem", "a problem returned by a check can be dropped before reaching the summary")
	}
}

// c20SearchFlags: a search flag set in an inner loop and tested in the
// enclosing one starts afresh for every element of the enclosing loop.
func checkSearchFlags(c *Ctx, rule string, fns ...string) {
	p := c.P
	n := 0
	for _, q := range fns {
		fi := c.MustFunc(rule, q)
		if fi == nil {
			continue
		}
		for _, f := range searchFlags(fi.Pkg.TypesInfo, fi.Decl.Body) {
			n++
			c.Check(f.Fresh, rule, fi.Obj.Name()+":search flag ("+typeRole(f.Var)+") starts afresh for every element", f.Inner.Pos(), "declared or reset inside the enclosing loop",
				"the flag that the loop at "+p.Pos(f.Inner.Pos())+" sets is declared outside the enclosing loop at "+p.Pos(f.Outer.Pos())+" and not reset there: once it is true it stays true, and every later element is treated as if its own search had succeeded")
		}
	}
	// no floor: code that searches without a flag (slices.ContainsFunc, an index) has nothing to reset
	c.Ok(rule, "search flags enumerated", token.NoPos, itoa(n)+" in "+strings.Join(fns, ", "))
}

func dumpSearchFlags(c *Ctx) {
	p := c.P
	for _, fi := range p.AllFuncs() {
		if fi.Decl.Body == nil || p.IsTestFile(fi.Decl.Pos()) {
			continue
		}
		for _, f := range searchFlags(fi.Pkg.TypesInfo, fi.Decl.Body) {
			fmt.Fprintf(os.Stderr, "FLAG %s %s fresh=%v at %s\n", fi.Name, f.Var.Name(), f.Fresh, p.Pos(f.Inner.Pos()))
		}
	}
}

// c20TreeComplete: the syntax tree the checks search (parser.tree) has a node
// for every child the vendored parser reports: the loop over
// promParser.Children(expr) appends tree(child) for every element, with no
// guard and no way to skip one. A pruned child (an aggregation parameter, say)
// hides the selectors inside it from every HasVectorSelector search.
func c20TreeComplete(c *Ctx, R string) {
	fi := c.MustFunc(R, "internal/parser.tree")
	if fi == nil {
		return
	}
	info := fi.Pkg.TypesInfo
	pm := parentMap(fi.Decl.Body)
	var loop *ast.RangeStmt
	ast.Inspect(fi.Decl.Body, func(n ast.Node) bool {
		if rs, ok := n.(*ast.RangeStmt); ok {
			src := ast.Unparen(rs.X)
			if call, ok := src.(*ast.CallExpr); ok {
				if fn := Callee(info, call); fn != nil && fn.Name() == "Children" && fn.Pkg() != nil && fn.Pkg().Path() == "github.com/prometheus/prometheus/promql/parser" && len(call.Args) == 1 && isObj(info, call.Args[0], paramObj(fi, 0)) {
					loop = rs
				}
			}
		}
		return true
	})
	if loop == nil {
		c.Bad(R, "tree:ranges over promParser.Children(expr)", fi.Decl.Pos(), "tree() no longer walks promParser.Children of the node it was given")
		return
	}
	var rec *ast.CallExpr
	ast.Inspect(loop.Body, func(n ast.Node) bool {
		if call, ok := n.(*ast.CallExpr); ok && rec == nil && Callee(info, call) == fi.Obj && len(call.Args) >= 1 && objOf(info, call.Args[0]) != nil && objOf(info, call.Args[0]) == objOf(info, loop.Value) {
			rec = call
		}
		return true
	})
	why := ""
	switch {
	case rec == nil:
		why = "the loop body does not call tree(child)"
	case len(lexicalGuards(pm, rec, loop.Body)) > 0:
		why = "tree(child) is guarded by `" + exprStr(lexicalGuards(pm, rec, loop.Body)[0].E) + "`"
	default:
		for _, st := range loop.Body.List {
			if st.End() <= rec.Pos() && containsBranch(st) {
				why = "a statement in front of tree(child) can skip the element"
			}
		}
		// the result is appended to the node's children
		if why == "" {
			ok := false
			if call, isCall := pm[rec].(*ast.CallExpr); isCall && exprStr(call.Fun) == "append" {
				if as, isAs := pm[call].(*ast.AssignStmt); isAs && len(as.Lhs) == 1 {
					if sel, isSel := as.Lhs[0].(*ast.SelectorExpr); isSel && sel.Sel.Name == "Children" {
						ok = true
					}
				}
			}
			if !ok {
				why = "the result of tree(child) is not appended to Children"
			}
		}
	}
	c.Check(why == "", R, "tree:every child reported by the vendored parser becomes a node", loop.Pos(), "unconditional append(tree(child))",
		why+": the part of the query below that child is invisible to every search over the tree, so a rule that uses the removed metric only there is not listed as a dependant")
}

// c20RemovedRulesNeedNoFile: a problem about a removed rule is anchored on the
// old version of its file (AnchorBefore), and that file may be gone at HEAD —
// the whole file was deleted or renamed. Every place in internal/reporter that
// reads the rule file does so only for problems anchored on the new version:
// the readFile call stands under `Anchor == checks.AnchorAfter`. Otherwise the
// console reporter fails with "no such file" and the warning (and everything
// sorted after it) is never printed.
func c20RemovedRulesNeedNoFile(c *Ctx, R string) {
	rep := c.P.Pkg("internal/reporter")
	if rep == nil {
		return
	}
	info := rep.TypesInfo
	n := 0
	for _, fi := range c.P.AllFuncs() {
		if fi.Pkg != rep || fi.Decl.Body == nil || c.P.IsTestFile(fi.Decl.Pos()) {
			continue
		}
		pm := parentMap(fi.Decl.Body)
		seq := 0
		ast.Inspect(fi.Decl.Body, func(nd ast.Node) bool {
			call, ok := nd.(*ast.CallExpr)
			if !ok {
				return true
			}
			fn := Callee(info, call)
			isRead := isCallTo(info, call, "internal/reporter.readFile")
			if fn != nil && fn.Pkg() != nil && fn.Pkg().Path() == "os" && (fn.Name() == "ReadFile" || fn.Name() == "Open") && fi.Obj.Name() != "readFile" {
				isRead = true
			}
			if !isRead {
				return true
			}
			n++
			seq++
			guarded := false
			for _, g := range lexicalGuards(pm, call, fi.Decl.Body) {
				ast.Inspect(g.E, func(m ast.Node) bool {
					be, isBin := m.(*ast.BinaryExpr)
					if !isBin {
						return true
					}
					for _, pr := range [][2]ast.Expr{{be.X, be.Y}, {be.Y, be.X}} {
						if fieldSel(info, pr[0], "internal/checks.Problem", "Anchor") {
							if k := constObj(info, pr[1]); k != nil {
								if (k.Name() == "AnchorAfter" && be.Op == token.EQL && g.Truth) || (k.Name() == "AnchorBefore" && be.Op == token.NEQ && g.Truth) ||
									(k.Name() == "AnchorBefore" && be.Op == token.EQL && !g.Truth) || (k.Name() == "AnchorAfter" && be.Op == token.NEQ && !g.Truth) {
									guarded = true
								}
							}
						}
					}
					return true
				})
			}
			c.Check(guarded, R, strings.TrimPrefix(fi.Name, "internal/reporter.")+":rule file read only for problems on the new version#"+itoa(seq), call.Pos(), "under Anchor == AnchorAfter",
				"the rule file is read for every problem, also for one about a removed rule: when the file that held the removed rule no longer exists at HEAD the read fails, the reporter returns the error, and the `rule was removed but others depend on it` warning is never shown")
			return true
		})
	}
	c.Check(n >= 3, R, "rule file reads in internal/reporter enumerated", token.NoPos, itoa(n), "fewer than 3 reads found")
}

// c20EverySelectorReturned: utils.HasVectorSelector hands back every selector of
// the tree, one entry per occurrence. The selector of the node itself is
// appended under nothing but the type test, and what the recursive call found
// for a child is appended whole and unconditionally. A filter ("each selector
// only once") needs an equality on selectors, and any equality short of the
// full matcher list drops `ALERTS{alertname="B"}` after `ALERTS{alertname="A"}`:
// the rule behind the second selector can then be removed without a warning.
func c20EverySelectorReturned(c *Ctx, R string) {
	fi := c.MustFunc(R, "internal/parser/utils.HasVectorSelector")
	if fi == nil {
		return
	}
	info := fi.Pkg.TypesInfo
	entry := fi
	findLoop := func(f *FuncInfo) *ast.RangeStmt {
		var l *ast.RangeStmt
		ast.Inspect(f.Decl.Body, func(nd ast.Node) bool {
			if rs, ok := nd.(*ast.RangeStmt); ok && l == nil && fieldSel(info, rs.X, "internal/parser.PromQLNode", "Children") {
				l = rs
			}
			return true
		})
		return l
	}
	loop := findLoop(fi)
	if loop == nil {
		// the walk may live in a (recursive) helper that collects into an accumulator
		ast.Inspect(entry.Decl.Body, func(nd ast.Node) bool {
			if call, ok := nd.(*ast.CallExpr); ok && loop == nil {
				if callee := c.P.FuncOf(Callee(info, call)); callee != nil && callee.Pkg == entry.Pkg && callee.Decl.Body != nil {
					if l := findLoop(callee); l != nil {
						fi, loop = callee, l
					}
				}
			}
			return true
		})
	}
	if loop == nil {
		c.Bad(R, "HasVectorSelector:every child is searched", fi.Decl.Pos(), "no loop over node.Children")
		return
	}
	pm := parentMap(fi.Decl.Body)
	why := loopReachesCall(info, pm, loop.Body, "the recursive search", func(cl *ast.CallExpr) bool {
		return Callee(info, cl) == fi.Obj || Callee(info, cl) == entry.Obj
	})
	whole := fi.Obj.Type().(*types.Signature).Results().Len() == 0 // an accumulator walk appends nothing on the way up
	ast.Inspect(loop.Body, func(nd ast.Node) bool {
		if call, ok := nd.(*ast.CallExpr); ok && exprStr(call.Fun) == "append" && call.Ellipsis.IsValid() && len(call.Args) == 2 {
			if rc, isCall := ast.Unparen(call.Args[1]).(*ast.CallExpr); isCall && Callee(info, rc) == fi.Obj {
				whole = true
			} else if id, isID := ast.Unparen(call.Args[1]).(*ast.Ident); isID {
				if d, isCall := singleDef(info, fi.Decl.Body, id).(*ast.CallExpr); isCall && Callee(info, d) == fi.Obj {
					whole = true
				}
			}
		}
		return true
	})
	if why == "" && !whole {
		why = "what the recursive search returns is not appended whole (`append(vs, found...)`)"
	}
	c.Check(why == "", R, "HasVectorSelector:every selector of every child is returned", loop.Pos(), "append(vs, HasVectorSelector(child)...)",
		why+": selectors are filtered on the way up, so an expression that mentions two alerts (or two metrics) through selectors of the same shape yields only the first, and removing the rule behind the other is not reported")
}

// c20Round5: two facts outside the dependency check that decide which rules
// exist at all. (a) cmd/pint.parseNames: only the word `legacy` selects the
// legacy name validation; everything else — the unset default in particular —
// means UTF-8 names, as Prometheus 3 does. With the default flipped a rule
// named `http.requests:rate5m` is an invalid rule, and a removed one is skipped
// without a warning. Decided by evaluation. (b) The glob finder and the branch
// finder decide whether a file takes part from the same path: GlobFinder.Find
// asks the path filter about the path the file was found under (`fp.path`), not
// about the symlink target.
func c20Round5(c *Ctx) {
	R := "C20-R2"
	p := c.P
	if pn := c.MustFunc(R, "cmd/pint.parseNames"); pn != nil {
		info := pn.Pkg.TypesInfo
		sig := pn.Obj.Type().(*types.Signature)
		want := map[string]string{"legacy": "LegacyValidation", "utf-8": "UTF8Validation", "": "UTF8Validation", "bogus": "UTF8Validation"}
		vals := map[string]int64{}
		if mp := p.Pkg("github.com/prometheus/common/model"); mp != nil {
			for _, nm := range []string{"LegacyValidation", "UTF8Validation"} {
				if k, ok := mp.Types.Scope().Lookup(nm).(*types.Const); ok {
					v, _ := constantInt(k)
					vals[nm] = v
				}
			}
		}
		if len(vals) != 2 || sig.Params().Len() != 1 {
			c.Undecided(R, "parseNames:validation schemes", pn.Decl.Pos(), "model.LegacyValidation / UTF8Validation not found")
		} else {
			for _, w := range []string{"legacy", "utf-8", "", "bogus"} {
				ev := &miniEval{info: info, prog: p, env: map[types.Object]mval{}}
				ev.env[sig.Params().At(0)] = mStr(w)
				ctl := ev.block(pn.Decl.Body.List)
				key := "parseNames:" + strq(w) + " selects " + want[w]
				if ev.undec != "" || ctl.kind != 'r' || ctl.ret.k != mvInt {
					c.Undecided(R, key, pn.Decl.Pos(), "could not be evaluated: "+ev.undec)
					continue
				}
				c.Check(ctl.ret.i == vals[want[w]], R, key, pn.Decl.Pos(), want[w],
					"parser.names = "+strq(w)+" selects the other name validation scheme: with the default changed, rules whose names are only valid as UTF-8 names become invalid rules — they are neither dependants nor replacements, and a removed one gets no rule/dependency warning")
			}
		}
	}
	if gf := c.MustFunc(R, "internal/discovery.GlobFinder.Find"); gf != nil {
		info := gf.Pkg.TypesInfo
		n, okP := 0, true
		got := ""
		ast.Inspect(gf.Decl.Body, func(nd ast.Node) bool {
			call, ok := nd.(*ast.CallExpr)
			if !ok || len(call.Args) != 1 {
				return true
			}
			if fn := Callee(info, call); fn == nil || fn.Name() != "IsPathAllowed" {
				return true
			}
			n++
			if sel, isSel := ast.Unparen(call.Args[0]).(*ast.SelectorExpr); !isSel || sel.Sel.Name != "path" || fieldOwner(info, sel) != "internal/discovery.filePath" {
				okP, got = false, exprStr(call.Args[0])
			}
			return true
		})
		c.Check(n >= 1 && okP, R, "GlobFinder.Find:the path filter is asked about the path the file was found under", gf.Decl.Pos(), "fp.path",
			"include/exclude patterns are applied to `"+got+"`: the branch finder filters on the link path, so a rule file that belongs to the included tree only through a symlink is loaded by one finder and not by the other — its rules stop counting as dependants and replacements")
	}
}

// c20BothVersionsAreRead: a rule is "removed" when it is in the old text of a changed file and not in the
// new one. GitBranchFinder.Find therefore reads BOTH texts of every change, whatever git calls the change:
// the two readRules calls in the loop over the changes stand under no condition, or only under one about
// the text itself (its length). A file deleted and re-added on the branch has status "added" and an old
// text; skipping the old text by status loses every rule that was dropped in between.
func c20BothVersionsAreRead(c *Ctx, R string) {
	find := c.MustFunc(R, "internal/discovery.GitBranchFinder.Find")
	if find == nil {
		return
	}
	info := find.Pkg.TypesInfo
	pm := parentMap(find.Decl.Body)
	seen := map[string]bool{}
	ast.Inspect(find.Decl.Body, func(n ast.Node) bool {
		call, ok := n.(*ast.CallExpr)
		if !ok || !isCallTo(info, call, "internal/discovery.readRules") {
			return true
		}
		which := ""
		for _, a := range call.Args {
			ast.Inspect(a, func(m ast.Node) bool {
				if sel, ok := m.(*ast.SelectorExpr); ok && (sel.Sel.Name == "Before" || sel.Sel.Name == "After") && fieldOwner(info, sel) == "internal/git.BodyDiff" {
					which = sel.Sel.Name
				}
				return true
			})
		}
		if which == "" {
			return true
		}
		seen[which] = true
		var loop ast.Node = find.Decl.Body
		for cur := pm[ast.Node(call)]; cur != nil; cur = pm[cur] {
			if _, isRange := cur.(*ast.RangeStmt); isRange {
				loop = cur.(*ast.RangeStmt).Body
				break
			}
		}
		bad := ""
		for _, g := range lexicalGuards(pm, call, loop) {
			aboutText := false
			ast.Inspect(g.E, func(m ast.Node) bool {
				if sel, ok := m.(*ast.SelectorExpr); ok && sel.Sel.Name == which && fieldOwner(info, sel) == "internal/git.BodyDiff" {
					aboutText = true
				}
				return true
			})
			if !aboutText {
				bad = exprStr(g.E)
			}
		}
		c.Check(bad == "", R, "Find:the "+strings.ToLower(which)+" text of every change is read", call.Pos(), "unconditional",
			"the "+strings.ToLower(which)+" version of a changed file is read only under `"+bad+"`: rules that exist in the skipped text are never compared, so a removed rule is not seen as removed (or an added one as added)")
		return true
	})
	c.Check(seen["Before"] && seen["After"], R, "Find:both texts are read", find.Decl.Pos(), "Before and After", "GitBranchFinder.Find no longer reads both Body.Before and Body.After through readRules")
}

// ---- round 6 rules (shared file for brevity) ----

// c13SeriesLabelsAreCanonical: a series' identity across slices is the fingerprint of its label set, and the
// hash of a label set depends on the order of its labels. Every label set handed to AppendSampleToRanges is
// therefore built by a constructor that sorts (MetricToLabels, labels.FromMap/FromStrings/New), or by a
// builder on which Sort() is called in the same function.
func c13SeriesLabelsAreCanonical(c *Ctx, R string) {
	prom := c.P.Pkg("internal/promapi")
	if prom == nil {
		return
	}
	info := prom.TypesInfo
	n := 0
	for _, fi := range c.P.AllFuncs() {
		if fi.Pkg != prom || fi.Decl.Body == nil || c.P.IsTestFile(fi.Decl.Pos()) {
			continue
		}
		sorted := map[types.Object]bool{}
		ast.Inspect(fi.Decl.Body, func(nd ast.Node) bool {
			if call, ok := nd.(*ast.CallExpr); ok {
				if sel, ok := call.Fun.(*ast.SelectorExpr); ok && sel.Sel.Name == "Sort" {
					if o := objOf(info, sel.X); o != nil {
						sorted[o] = true
					}
				}
			}
			return true
		})
		var canonical func(e ast.Expr, depth int) bool
		canonical = func(e ast.Expr, depth int) bool {
			e = ast.Unparen(e)
			if depth > 4 {
				return false
			}
			switch x := e.(type) {
			case *ast.Ident:
				defs := allDefs(info, fi.Decl.Body, x)
				if len(defs) == 0 {
					return true // a parameter: the caller's obligation
				}
				for _, d := range defs {
					if !canonical(d, depth+1) {
						return false
					}
				}
				return true
			case *ast.CallExpr:
				if fn := Callee(info, x); fn != nil && fn.Pkg() != nil {
					q := fn.Pkg().Path() + "." + fn.Name()
					switch {
					case strings.HasSuffix(q, "internal/promapi.MetricToLabels"), q == "github.com/prometheus/prometheus/model/labels.FromMap",
						q == "github.com/prometheus/prometheus/model/labels.FromStrings", q == "github.com/prometheus/prometheus/model/labels.New",
						q == "github.com/prometheus/prometheus/model/labels.EmptyLabels":
						return true
					}
					if fn.Name() == "Labels" {
						if sel, ok := x.Fun.(*ast.SelectorExpr); ok {
							if o := objOf(info, sel.X); o != nil && sorted[o] {
								return true
							}
						}
					}
				}
				return false
			case *ast.CompositeLit:
				return len(x.Elts) == 0
			}
			return false
		}
		ast.Inspect(fi.Decl.Body, func(nd ast.Node) bool {
			call, ok := nd.(*ast.CallExpr)
			if !ok || !isCallTo(info, call, "internal/promapi.AppendSampleToRanges") || len(call.Args) < 2 {
				return true
			}
			n++
			c.Check(canonical(call.Args[1], 0), R, shortFuncName(fi.Name)+":label sets of returned series are sorted", call.Pos(), exprStr(call.Args[1]),
				"the label set `"+exprStr(call.Args[1])+"` is not built by a sorting constructor: its fingerprint depends on the order the labels arrived in, so the same series gets different identities in different slices and is not merged across slice boundaries")
			return true
		})
	}
	c.Check(n >= 1, R, "AppendSampleToRanges call sites enumerated", token.NoPos, itoa(n), "no call site found")
}

// c01DurationErrorsAreAlwaysReported: Prometheus rejects every `for` / `keep_firing_for` value that
// model.ParseDuration rejects (the empty string included). In alerts/for the branch that reports it is taken
// whenever the error is not nil: nothing else stands in its condition.
func c01DurationErrorsAreAlwaysReported(c *Ctx, R string) {
	cf := c.MustFunc(R, "internal/checks.AlertsForChecksFor.checkField")
	if cf == nil {
		return
	}
	info := cf.Pkg.TypesInfo
	var errObj types.Object
	ast.Inspect(cf.Decl.Body, func(n ast.Node) bool {
		as, ok := n.(*ast.AssignStmt)
		if !ok || len(as.Rhs) != 1 || len(as.Lhs) != 2 {
			return true
		}
		if call, isCall := as.Rhs[0].(*ast.CallExpr); isCall {
			if fn := Callee(info, call); fn != nil && fn.Name() == "ParseDuration" {
				errObj = objOf(info, as.Lhs[1])
			}
		}
		return true
	})
	if errObj == nil {
		c.Undecided(R, "alerts/for:duration parse error bound", cf.Decl.Pos(), "no `d, err := model.ParseDuration(…)` found")
		return
	}
	pm := parentMap(cf.Decl.Body)
	n, bad := 0, ""
	for _, cl := range compositeLits(info, cf.Decl.Body, "internal/checks.Problem") {
		gs := lexicalGuards(pm, cl, cf.Decl.Body)
		under := false
		for _, g := range gs {
			if x, isNil, ok := nilAtom(info, g); ok && !isNil && objOf(info, x) == errObj {
				under = true
			}
		}
		if !under {
			continue
		}
		n++
		for _, g := range gs {
			if x, isNil, ok := nilAtom(info, g); ok && !isNil && objOf(info, x) == errObj {
				continue
			}
			bad = exprStr(g.E)
		}
	}
	c.Check(n >= 1 && bad == "", R, "alerts/for:an unparsable duration is always reported", cf.Decl.Pos(), "under `err != nil` alone",
		"the invalid-duration problem is reported only when `"+bad+"` also holds: a value that model.ParseDuration rejects (Prometheus: the file does not load) passes alerts/for")
}

// c18PatternsAreCompiledAsValidated: validate() compiles every configured pattern on its own. What is later
// compiled with a panicking constructor is that one pattern (between constant anchors), never several
// patterns glued together: `\Q` without `\E`, or an unbalanced group, is valid alone and swallows the glue.
func c18PatternsAreCompiledAsValidated(c *Ctx, R string) {
	n := 0
	for _, pkg := range c.P.ModPkgs() {
		rel := relPkg(pkg.PkgPath)
		if rel != "internal/config" && rel != "internal/checks" && rel != "cmd/pint" {
			continue
		}
		info := pkg.TypesInfo
		for _, fi := range c.P.AllFuncs() {
			if fi.Pkg != pkg || fi.Decl.Body == nil || c.P.IsTestFile(fi.Decl.Pos()) {
				continue
			}
			ast.Inspect(fi.Decl.Body, func(nd ast.Node) bool {
				call, ok := nd.(*ast.CallExpr)
				if !ok {
					return true
				}
				fn := Callee(info, call)
				if fn == nil || fn.Pkg() == nil {
					return true
				}
				q := relPkg(fn.Pkg().Path()) + "." + fn.Name()
				switch q {
				case "regexp.MustCompile", "internal/config.MustCompileRegexes", "internal/config.strictRegex", "internal/checks.MustTemplatedRegexp", "internal/checks.MustRawTemplatedRegexp":
				default:
					return true
				}
				n++
				glued := ""
				for _, a := range call.Args {
					ast.Inspect(a, func(m ast.Node) bool {
						if jc, isCall := m.(*ast.CallExpr); isCall {
							if jf := Callee(info, jc); jf != nil && jf.Pkg() != nil && jf.Pkg().Path() == "strings" && (jf.Name() == "Join" || jf.Name() == "Repeat") {
								glued = exprStr(jc)
							}
						}
						return true
					})
				}
				c.Check(glued == "", R, shortFuncName(fi.Name)+"->"+fn.Name()+":one pattern per compiled expression", call.Pos(), "not glued",
					"`"+glued+"` is compiled by a constructor that panics: the patterns were validated one by one, and a pattern that is valid alone (an open `\\Q`, an alternation) changes the meaning of the glue, so an accepted configuration crashes the run")
				return true
			})
		}
	}
	c.Check(n >= 5, R, "panicking pattern constructors enumerated", token.NoPos, itoa(n), "fewer call sites than confirmed ("+itoa(n)+")")
}

// c05SeverityZeroIsAValue: Information is the zero value of checks.Severity. No code tells "not configured"
// from a severity by comparing it with 0 (or with its own zero value): a configured `info` would be taken for
// "unset" and replaced by a default of higher severity, which changes the exit status.
func c05SeverityZeroIsAValue(c *Ctx, R string) {
	n, bad := 0, ""
	for _, pkg := range c.P.ModPkgs() {
		info := pkg.TypesInfo
		for _, f := range pkg.Syntax {
			if c.P.IsTestFile(f.Pos()) {
				continue
			}
			ast.Inspect(f, func(nd ast.Node) bool {
				be, ok := nd.(*ast.BinaryExpr)
				if !ok || (be.Op != token.EQL && be.Op != token.NEQ) {
					return true
				}
				for _, pair := range [][2]ast.Expr{{be.X, be.Y}, {be.Y, be.X}} {
					if typeQName(info.TypeOf(pair[0])) != "internal/checks.Severity" {
						continue
					}
					n++
					if lit, isLit := ast.Unparen(pair[1]).(*ast.BasicLit); isLit && lit.Value == "0" {
						bad = "`" + exprStr(be) + "` at " + c.P.Pos(be.Pos())
					}
					break
				}
				return true
			})
		}
	}
	c.Check(bad == "", R, "no severity is compared with the literal 0", token.NoPos, itoa(n)+" comparisons of severities inspected",
		"a severity is tested against 0 ("+bad+"): 0 is Information, a value a user can configure, not \"unset\"")
}

// c14RequestsDieWithTheirCaller: the deadline context of a request derives from the caller's context itself
// (requestContext wraps its own parameter), so that a question whose asker gave up releases its worker and
// its per-question lock together; a request detached from its caller is still on the wire when the lock is
// free again and the same question is sent a second time.
func c14RequestsDieWithTheirCaller(c *Ctx, R string) {
	rc := c.MustFunc(R, "internal/promapi.Prometheus.requestContext")
	if rc == nil {
		return
	}
	info := rc.Pkg.TypesInfo
	sig := rc.Obj.Type().(*types.Signature)
	n, bad := 0, ""
	ast.Inspect(rc.Decl.Body, func(nd ast.Node) bool {
		call, ok := nd.(*ast.CallExpr)
		if !ok || len(call.Args) < 1 {
			return true
		}
		fn := Callee(info, call)
		if fn == nil || fn.Pkg() == nil || fn.Pkg().Path() != "context" || !strings.HasPrefix(fn.Name(), "With") || fn.Name() == "WithoutCancel" {
			return true
		}
		n++
		isParam := false
		for i := 0; i < sig.Params().Len(); i++ {
			if objOf(info, call.Args[0]) == types.Object(sig.Params().At(i)) {
				isParam = true
			}
		}
		if !isParam {
			bad = exprStr(call.Args[0])
		}
		return true
	})
	c.Check(n >= 1 && bad == "", R, "requestContext:derives from the caller's context", rc.Decl.Pos(), "parent is the parameter",
		"the request context derives from `"+bad+"`, not from the caller's context: cancelling the caller no longer ends the request")
}
