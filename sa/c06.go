package main

import (
	"go/ast"
	"go/token"
	"go/types"
	"sort"
	"strings"
)

func init() {
	register("C06", runC06,
		"Decides only the structural clauses that sit between the position reconstruction and the carets a user sees: (R1) every diags.Diagnostic literal whose columns are computed from len(E.Value) of a YAML node carries E.Pos of the same node, and every literal whose columns are PromQL parser offsets carries the Pos of a PromQL expression value; (R2) PromQL offsets (0-based, End exclusive) are converted to 1-based inclusive columns as Start+1 / End, and as End+1 exactly for ranges produced by an inclusive-end producer, whose every return is itself inclusive; (R3) a span that starts at column 1 and is sized by len(E.Value) ends exactly at len(E.Value); (R4) line/column displacement and the source-line table are threaded unchanged (or accumulated additively, all three together, at the one re-basing site) through every parser function down to PositionRanges.AddOffset / NewPositionRange; (R5) the column unit agrees between the writer of positions (NewPositionRange) and the renderer (InjectDiagnostics): both count bytes; (R6) parseRule folds the line of every part and the last line of every position-bearing field into the rule's line range and returns that range.",
		"the reconstruction itself: that NewPositionRange finds, for every scalar style, chomping indicator, indentation and escape, exactly the bytes the YAML library took the value from is a function of the input bytes and is not decided; neither is that a range lies inside the file.")
}

const (
	qDiag     = "internal/diags.Diagnostic"
	qYamlNode = "internal/parser.YamlNode"
	qPromExpr = "internal/parser.PromQLExpr"
	qPosRange = "github.com/prometheus/prometheus/promql/parser/posrange.PositionRange"
)

// c06InclusiveProducers are the functions whose returned PositionRange.End
// points AT the last character instead of one past it. Confirmed by reading:
// findMatcherPos matches `name op "value"` and subtracts one from the match
// end so that End is the closing quote.
var c06InclusiveProducers = map[string]string{
	"internal/checks.findMatcherPos": "End = match end - 1 (closing quote of the matcher)",
}

// c06WholeSpanExempt: spans sized by len(E.Value) that deliberately cover a prefix only.
var c06WholeSpanExempt = map[string]string{
	"internal/checks.WholeRuleDiag": "marks at most the first three characters of the rule's last key on purpose (min(3, len))",
}

// canonPath renders an access path with the root variable replaced by its
// type, so that keys do not depend on local variable names.
func canonPath(info *types.Info, e ast.Expr) string {
	root, path, ok := accessPath(info, e)
	if !ok || root == nil {
		return exprStr(e)
	}
	i := strings.IndexByte(path, '.')
	rest := ""
	if i >= 0 {
		rest = path[i:]
	}
	return "(" + typeQName(root.Type()) + ")" + rest
}

func sameExpr(info *types.Info, a, b ast.Expr) bool {
	if samePath(info, a, b) {
		return true
	}
	return exprStr(ast.Unparen(a)) == exprStr(ast.Unparen(b))
}

// lenValueArgs returns the X of every len(X) under e where X is the Value
// field of a parser.YamlNode.
func lenValueArgs(info *types.Info, e ast.Expr) []ast.Expr {
	var out []ast.Expr
	if e == nil {
		return nil
	}
	ast.Inspect(e, func(n ast.Node) bool {
		call, ok := n.(*ast.CallExpr)
		if !ok || len(call.Args) != 1 {
			return true
		}
		if id, ok := call.Fun.(*ast.Ident); ok && id.Name == "len" {
			if _, isBuiltin := info.Uses[id].(*types.Builtin); isBuiltin && fieldSel(info, call.Args[0], qYamlNode, "Value") {
				out = append(out, call.Args[0])
			}
		}
		return true
	})
	return out
}

// posRangeFields returns the P of every P.Start / P.End under e where P is a
// posrange.PositionRange.
func posRangeFields(info *types.Info, e ast.Expr, field string) []ast.Expr {
	var out []ast.Expr
	if e == nil {
		return nil
	}
	ast.Inspect(e, func(n ast.Node) bool {
		sel, ok := n.(*ast.SelectorExpr)
		if !ok || sel.Sel.Name != field {
			return true
		}
		if t := info.TypeOf(sel.X); t != nil && typeQName(t) == qPosRange {
			out = append(out, sel.X)
		}
		return true
	})
	return out
}

// stripInt removes an int(...) conversion.
func stripInt(info *types.Info, e ast.Expr) ast.Expr {
	e = ast.Unparen(e)
	if call, ok := e.(*ast.CallExpr); ok && len(call.Args) == 1 {
		if tv, ok := info.Types[call.Fun]; ok && tv.IsType() {
			return ast.Unparen(call.Args[0])
		}
	}
	return e
}

// plusConst splits e into (x, k) when e is x, x + k or x - k with constant k.
func plusConst(info *types.Info, e ast.Expr) (ast.Expr, int64, bool) {
	e = ast.Unparen(e)
	if b, ok := e.(*ast.BinaryExpr); ok && (b.Op == token.ADD || b.Op == token.SUB) {
		if k, ok := constInt(info, b.Y); ok {
			if b.Op == token.SUB {
				k = -k
			}
			return ast.Unparen(b.X), k, true
		}
		return e, 0, false
	}
	return e, 0, true
}

func runC06(c *Ctx) {
	p := c.P
	c.Rule("C06-R1", "Diagnostic columns and Pos come from the same node", 60)
	c.Rule("C06-R2", "PromQL offsets converted Start+1 / End (+1 only for inclusive-end producers)", 30)
	defer c06ParsersKeepNoState(c, "C06-R2")
	c.Rule("C06-R3", "whole-value spans end at len(value)", 35)
	c.Rule("C06-R4", "displacement and source lines threaded to the position sinks", 30)
	c.Rule("C06-R5", "column unit agrees between position writer and renderer", 3)
	c.Rule("C06-R6", "rule line range folds every part and every field's last line", 11)

	nLits := 0
	for _, fi := range p.AllFuncs() {
		if p.IsTestFile(fi.Decl.Pos()) || fi.Decl.Body == nil {
			continue
		}
		info := fi.Pkg.TypesInfo
		for _, cl := range compositeLits(info, fi.Decl.Body, qDiag) {
			nLits++
			c06Literal(c, fi, info, cl)
		}
	}
	c.Note("C06: %d diags.Diagnostic literals inspected", nLits)
	c06Producers(c)
	c06Threading(c)
	c06Units(c)
	c06Lines(c, "C06-R6")
	c.Rule("C06-R7", "the line table holds the text the YAML decoder saw", 3)
	defer c06LineTableIsDecoderText(c, "C06-R7")
	defer c06ContinuationIndent(c, "C06-R4")
	defer c02WholeLinesR(c, "C06-R7")
	defer c06RenderedTextIsFileText(c, "C06-R5")
	if rnl := c.MustFunc("C06-R7", "internal/parser.ContentReader.readNextLine"); rnl != nil {
		linesPublishedBlanked(c, "C06-R7", rnl)
		c10ReadConsumes(c, "C06-R7")
		c02KeyValueSameOrigin(c, "C06-R6")
	}
	c06WhitespaceIsContent(c)
	c06OnlyMatchedPositions(c)
}

func c06Literal(c *Ctx, fi *FuncInfo, info *types.Info, cl *ast.CompositeLit) {
	pos := litField(cl, "Pos")
	first := litField(cl, "FirstColumn")
	last := litField(cl, "LastColumn")
	if first == nil && last == nil {
		return
	}
	// ---- R1 / R3: columns sized by len(E.Value)
	seen := map[string]bool{}
	for _, col := range []ast.Expr{first, last} {
		for _, v := range lenValueArgs(info, col) {
			base := ast.Unparen(v).(*ast.SelectorExpr).X
			key := fi.Name + ":" + canonPath(info, v)
			if seen[key] {
				continue
			}
			seen[key] = true
			ok := false
			if ps, isSel := ast.Unparen(pos).(*ast.SelectorExpr); pos != nil && isSel && fieldSel(info, ps, qYamlNode, "Pos") {
				ok = sameExpr(info, ps.X, base)
			}
			c.Check(ok, "C06-R1", key, cl.Pos(), "Pos is "+exprStr(pos),
				"columns are computed from len("+exprStr(v)+") but Pos is "+exprStr(pos)+": the carets are placed inside a different field than the one measured")
		}
	}
	if k, isConst := constInt(info, first); isConst && k == 1 {
		for _, v := range lenValueArgs(info, last) {
			key := fi.Name + ":" + canonPath(info, v)
			if why, ex := c06WholeSpanExempt[fi.Name]; ex {
				c.Ok("C06-R3", key+" (exempt)", cl.Pos(), why)
				continue
			}
			exact := false
			if call, ok := ast.Unparen(last).(*ast.CallExpr); ok && len(call.Args) == 1 && ast.Unparen(call.Args[0]) == ast.Unparen(v) {
				exact = true
			}
			c.Check(exact, "C06-R3", key, cl.Pos(), "LastColumn = "+exprStr(last),
				"the span starts at column 1 of "+exprStr(v)+" but ends at `"+exprStr(last)+"`, not at len(value): the last character(s) are not marked, and a one-character value gets an empty span whose message is never rendered")
		}
	}
	// ---- R1 / R2: columns from PromQL parser offsets
	starts := posRangeFields(info, first, "Start")
	ends := posRangeFields(info, last, "End")
	if len(starts) == 0 && len(ends) == 0 {
		return
	}
	keyBase := fi.Name + ":promql-range@"
	var P ast.Expr
	if len(starts) == 1 && len(ends) == 1 && sameExpr(info, starts[0], ends[0]) {
		P = starts[0]
	}
	if P == nil {
		c.Bad("C06-R2", keyBase+exprStr(first)+".."+exprStr(last), cl.Pos(),
			"FirstColumn and LastColumn are not the Start and End of one and the same PositionRange")
		return
	}
	key := keyBase + canonPath(info, P)
	okPos := false
	if ps, isSel := ast.Unparen(pos).(*ast.SelectorExpr); pos != nil && isSel && fieldSel(info, ps, qYamlNode, "Pos") {
		okPos = fieldSel(info, ps.X, qPromExpr, "Value")
	}
	c.Check(okPos, "C06-R1", key, cl.Pos(), "Pos is "+exprStr(pos),
		"columns are PromQL parser offsets but Pos `"+exprStr(pos)+"` is not the position of a PromQL expression value")

	fx, fk, fok := plusConst(info, first)
	fok = fok && fk == 1 && sameExpr(info, stripIntSel(info, fx, "Start"), P)
	lx, lk, lok := plusConst(info, last)
	lok = lok && sameExpr(info, stripIntSel(info, lx, "End"), P)
	if !fok || !lok {
		c.Bad("C06-R2", key, cl.Pos(), "columns `"+exprStr(first)+"` / `"+exprStr(last)+"` are not of the form int(P.Start)+1 / int(P.End)[+1]")
		return
	}
	cls, why := c06ProducerClass(c.P, fi, info, P)
	switch cls {
	case "inclusive":
		c.Check(lk == 1, "C06-R2", key, cl.Pos(), "inclusive End (+1): "+why,
			"P comes from an inclusive-end producer ("+why+") but LastColumn is `"+exprStr(last)+"`: the span stops one character short")
	case "exclusive":
		c.Check(lk == 0, "C06-R2", key, cl.Pos(), "exclusive End (+0): "+why,
			"P has an exclusive End ("+why+") but LastColumn is `"+exprStr(last)+"`: the span runs past the text it describes")
	default:
		c.Undecided("C06-R2", key, cl.Pos(), "cannot classify the producer of "+exprStr(P)+": "+why)
	}
}

// stripIntSel returns the X of int(X.field) / X.field, or nil.
func stripIntSel(info *types.Info, e ast.Expr, field string) ast.Expr {
	e = stripInt(info, e)
	if sel, ok := e.(*ast.SelectorExpr); ok && sel.Sel.Name == field {
		return sel.X
	}
	return &ast.BadExpr{}
}

// c06ProducerClass classifies where the PositionRange P was produced.
func c06ProducerClass(p *Prog, fi *FuncInfo, info *types.Info, P ast.Expr) (string, string) {
	P = ast.Unparen(P)
	classifyCall := func(call *ast.CallExpr) (string, string) {
		fn := Callee(info, call)
		if fn == nil {
			return "", "dynamic call " + exprStr(call.Fun)
		}
		q := funcQName(fn)
		if fn.Pkg() != nil && !strings.HasPrefix(fn.Pkg().Path(), ModPath) {
			q = fn.Pkg().Path() + "." + fn.Name()
		}
		if why, ok := c06InclusiveProducers[q]; ok {
			return "inclusive", q + ": " + why
		}
		return "exclusive", q
	}
	switch x := P.(type) {
	case *ast.CallExpr:
		return classifyCall(x)
	case *ast.SelectorExpr:
		return "exclusive", "field " + exprStr(x)
	case *ast.Ident:
		obj := info.Uses[x]
		if obj == nil {
			return "", "unresolved identifier"
		}
		if v, ok := obj.(*types.Var); ok && v.IsField() {
			return "exclusive", "field"
		}
		// parameter?
		if fi.Obj != nil {
			sig := fi.Obj.Type().(*types.Signature)
			for i := 0; i < sig.Params().Len(); i++ {
				if sig.Params().At(i) == obj {
					return "exclusive", "parameter (parser offsets by convention)"
				}
			}
		}
		classes := map[string]string{}
		ast.Inspect(fi.Decl.Body, func(n ast.Node) bool {
			switch s := n.(type) {
			case *ast.AssignStmt:
				for i, l := range s.Lhs {
					id, ok := l.(*ast.Ident)
					if !ok {
						continue
					}
					o := info.Defs[id]
					if o == nil {
						o = info.Uses[id]
					}
					if o != obj {
						continue
					}
					if len(s.Rhs) != len(s.Lhs) {
						classes[""] = "multi-value assignment"
						continue
					}
					r := ast.Unparen(s.Rhs[i])
					if call, ok := r.(*ast.CallExpr); ok {
						k, w := classifyCall(call)
						classes[k] = w
					} else {
						classes["exclusive"] = "copy of " + exprStr(r)
					}
				}
			case *ast.RangeStmt:
				for _, l := range []ast.Expr{s.Key, s.Value} {
					if id, ok := l.(*ast.Ident); ok && info.Defs[id] == obj {
						classes["exclusive"] = "element of " + exprStr(s.X)
					}
				}
			case *ast.ValueSpec:
				for i, id := range s.Names {
					if info.Defs[id] == obj && i < len(s.Values) {
						if call, ok := ast.Unparen(s.Values[i]).(*ast.CallExpr); ok {
							k, w := classifyCall(call)
							classes[k] = w
						} else {
							classes["exclusive"] = "copy of " + exprStr(s.Values[i])
						}
					}
				}
			}
			return true
		})
		if len(classes) == 1 {
			for k, w := range classes {
				return k, w
			}
		}
		if len(classes) == 0 {
			return "", "no definition found"
		}
		var ks []string
		for k, w := range classes {
			ks = append(ks, k+"("+w+")")
		}
		sort.Strings(ks)
		return "", "mixed definitions: " + strings.Join(ks, ", ")
	}
	return "", "unsupported expression"
}

// c06Producers checks that every return of an inclusive-end producer is inclusive.
func c06Producers(c *Ctx) {
	p := c.P
	for _, q := range sortedKeys(c06InclusiveProducers) {
		fi := c.MustFunc("C06-R2", q)
		if fi == nil {
			continue
		}
		info := fi.Pkg.TypesInfo
		n := 0
		ast.Inspect(fi.Decl.Body, func(node ast.Node) bool {
			if _, ok := node.(*ast.FuncLit); ok {
				return false
			}
			ret, ok := node.(*ast.ReturnStmt)
			if !ok || len(ret.Results) != 1 {
				return true
			}
			n++
			key := q + ":return#" + itoa(n)
			r := ast.Unparen(ret.Results[0])
			cl, isLit := r.(*ast.CompositeLit)
			if !isLit {
				c.Bad("C06-R2", key, ret.Pos(), "returns `"+exprStr(r)+"` unchanged: a range with an exclusive End leaves a producer whose callers add one to End, so the span runs one character past the text")
				return true
			}
			end := litField(cl, "End")
			ok2 := false
			if end != nil {
				// End must subtract one somewhere at the top of its additive chain
				ok2 = subtractsOne(info, end)
			}
			c.Check(ok2, "C06-R2", key, ret.Pos(), "End = "+exprStr(end), "End `"+exprStr(end)+"` is not reduced by one: callers add one to End")
			return true
		})
		c.Check(n >= 1, "C06-R2", q+":has returns", fi.Decl.Pos(), itoa(n), "no return statements found")
	}
	// every user of an inclusive producer's result must be a Diagnostic column
	// conversion (checked above); other PositionRange-returning functions are listed
	var others []string
	for _, fi := range p.AllFuncs() {
		if p.IsTestFile(fi.Decl.Pos()) {
			continue
		}
		sig := fi.Obj.Type().(*types.Signature)
		if sig.Results().Len() == 1 && typeQName(sig.Results().At(0).Type()) == qPosRange {
			if _, inc := c06InclusiveProducers[fi.Name]; !inc {
				others = append(others, fi.Name)
			}
		}
	}
	c.Note("C06-R2: PositionRange producers treated as exclusive-end: %s", strings.Join(others, ", "))
}

// subtractsOne: e is `X - 1`, or a conversion / addition whose last operand subtracts one.
func subtractsOne(info *types.Info, e ast.Expr) bool {
	e = ast.Unparen(e)
	switch x := e.(type) {
	case *ast.BinaryExpr:
		if x.Op == token.SUB {
			if k, ok := constInt(info, x.Y); ok && k == 1 {
				return true
			}
		}
		if x.Op == token.ADD {
			return subtractsOne(info, x.Y) || subtractsOne(info, x.X)
		}
	case *ast.CallExpr:
		if len(x.Args) == 1 {
			if tv, ok := info.Types[x.Fun]; ok && tv.IsType() {
				return subtractsOne(info, x.Args[0])
			}
		}
	}
	return false
}

// ---------------------------------------------------------------- R4

// c06Roles computes, for every function of internal/parser, which parameters
// carry the line displacement (L), the column displacement (C) and the source
// line table (S), by propagation from the sinks.
func c06Roles(p *Prog) map[*types.Func]map[int]byte {
	roles := map[*types.Func]map[int]byte{}
	set := func(fn *types.Func, i int, r byte) bool {
		if roles[fn] == nil {
			roles[fn] = map[int]byte{}
		}
		if roles[fn][i] == r {
			return false
		}
		roles[fn][i] = r
		return true
	}
	// the sink: the parameter added to PositionRange.Line is the line
	// displacement, the one added to First/LastColumn the column displacement
	if fi := p.Func("internal/diags.PositionRanges.AddOffset"); fi != nil {
		info := fi.Pkg.TypesInfo
		sig := fi.Obj.Type().(*types.Signature)
		ast.Inspect(fi.Decl.Body, func(n ast.Node) bool {
			as, ok := n.(*ast.AssignStmt)
			if !ok || as.Tok != token.ADD_ASSIGN || len(as.Lhs) != 1 {
				return true
			}
			sel, ok := as.Lhs[0].(*ast.SelectorExpr)
			if !ok {
				return true
			}
			id, ok := ast.Unparen(as.Rhs[0]).(*ast.Ident)
			if !ok {
				return true
			}
			for i := 0; i < sig.Params().Len(); i++ {
				if sig.Params().At(i) != info.Uses[id] {
					continue
				}
				switch {
				case fieldSel(info, sel, "internal/diags.PositionRange", "Line"):
					set(fi.Obj, i, 'L')
				case fieldSel(info, sel, "internal/diags.PositionRange", "FirstColumn"), fieldSel(info, sel, "internal/diags.PositionRange", "LastColumn"):
					set(fi.Obj, i, 'C')
				}
			}
			return true
		})
	}
	if fi := p.Func("internal/diags.NewPositionRange"); fi != nil {
		set(fi.Obj, 0, 'S')
	}
	var funcs []*FuncInfo
	for _, fi := range p.AllFuncs() {
		if !p.IsTestFile(fi.Decl.Pos()) && fi.Decl.Body != nil && relPkg(fi.Pkg.PkgPath) == "internal/parser" {
			funcs = append(funcs, fi)
		}
	}
	for changed := true; changed; {
		changed = false
		for _, fi := range funcs {
			info := fi.Pkg.TypesInfo
			sig := fi.Obj.Type().(*types.Signature)
			paramIdx := map[types.Object]int{}
			for i := 0; i < sig.Params().Len(); i++ {
				paramIdx[sig.Params().At(i)] = i
			}
			ast.Inspect(fi.Decl.Body, func(n ast.Node) bool {
				call, ok := n.(*ast.CallExpr)
				if !ok {
					return true
				}
				fn := Callee(info, call)
				if fn == nil || roles[fn.Origin()] == nil {
					return true
				}
				for i, a := range call.Args {
					r, ok := roles[fn.Origin()][i]
					if !ok {
						continue
					}
					if id, ok := ast.Unparen(a).(*ast.Ident); ok {
						if pi, isParam := paramIdx[info.Uses[id]]; isParam {
							if set(fi.Obj, pi, r) {
								changed = true
							}
						}
					}
				}
				return true
			})
		}
	}
	return roles
}

// mentionsAdditively: e is the object itself or a chain of + whose operands include it.
func mentionsAdditively(info *types.Info, e ast.Expr, obj types.Object) (isSelf, accumulates bool) {
	e = ast.Unparen(e)
	if id, ok := e.(*ast.Ident); ok {
		return info.Uses[id] == obj, false
	}
	if b, ok := e.(*ast.BinaryExpr); ok && b.Op == token.ADD {
		s1, a1 := mentionsAdditively(info, b.X, obj)
		s2, a2 := mentionsAdditively(info, b.Y, obj)
		return false, s1 || a1 || s2 || a2
	}
	return false, false
}

// mentionsNodeLine: e reads the Line field of a yaml.Node outside of any call argument.
func mentionsNodeLine(info *types.Info, e ast.Expr) bool {
	found := false
	ast.Inspect(e, func(n ast.Node) bool {
		if _, ok := n.(*ast.CallExpr); ok {
			return false
		}
		if sel, ok := n.(*ast.SelectorExpr); ok && sel.Sel.Name == "Line" {
			if t := info.TypeOf(sel.X); t != nil && typeQName(t) == "gopkg.in/yaml.v3.Node" {
				found = true
			}
		}
		return true
	})
	return found
}

func containsAnyCall(e ast.Expr) bool {
	found := false
	ast.Inspect(e, func(n ast.Node) bool {
		if _, ok := n.(*ast.CallExpr); ok {
			found = true
		}
		return true
	})
	return found
}

func c06Threading(c *Ctx) {
	p := c.P
	roles := c06Roles(p)
	roleName := map[byte]string{'L': "line displacement", 'C': "column displacement", 'S': "source lines"}
	nFuncs := 0
	for fn := range roles {
		if len(roles[fn]) > 0 {
			nFuncs++
		}
	}
	c.Note("C06-R4: %d functions carry displacement / source-line parameters", nFuncs)
	for _, fi := range p.AllFuncs() {
		if p.IsTestFile(fi.Decl.Pos()) || fi.Decl.Body == nil {
			continue
		}
		info := fi.Pkg.TypesInfo
		sig := fi.Obj.Type().(*types.Signature)
		own := map[byte]types.Object{}
		for i, r := range roles[fi.Obj] {
			own[r] = sig.Params().At(i)
		}
		seq := map[string]int{}
		ast.Inspect(fi.Decl.Body, func(n ast.Node) bool {
			call, ok := n.(*ast.CallExpr)
			if !ok {
				return true
			}
			fn := Callee(info, call)
			if fn == nil {
				return true
			}
			rs := roles[fn.Origin()]
			if len(rs) == 0 {
				return true
			}
			callee := funcQName(fn.Origin())
			seq[callee]++
			base := fi.Name + "->" + callee + "#" + itoa(seq[callee])
			// classify every role argument
			type st struct{ self, acc, zero bool }
			got := map[byte]st{}
			idxs := make([]int, 0, len(rs))
			for i := range rs {
				idxs = append(idxs, i)
			}
			sort.Ints(idxs)
			for _, i := range idxs {
				r := rs[i]
				if i >= len(call.Args) {
					continue
				}
				a := call.Args[i]
				var s st
				if o := own[r]; o != nil {
					s.self, s.acc = mentionsAdditively(info, a, o)
				}
				if k, ok := constInt(info, a); ok && k == 0 {
					s.zero = true
				}
				got[r] = s
			}
			rebase := got['L'].acc && got['C'].acc && !got['S'].self
			for _, i := range idxs {
				r := rs[i]
				if i >= len(call.Args) {
					continue
				}
				a := call.Args[i]
				key := base + ":" + string(r)
				s := got[r]
				switch {
				case own[r] == nil && r == 'S':
					// entry point: checked by C19-R2 (the reader's line table)
					c.Ok("C06-R4", key, call.Pos(), "entry: "+exprStr(a))
				case own[r] == nil:
					c.Check(s.zero, "C06-R4", key, call.Pos(), "entry passes 0",
						"a function that has no "+roleName[r]+" of its own passes `"+exprStr(a)+"` instead of 0")
				case s.self:
					c.Ok("C06-R4", key, call.Pos(), "forwarded unchanged")
				case rebase:
					switch r {
					case 'S':
						c.Ok("C06-R4", key, call.Pos(), "re-basing site: new line table together with accumulated line and column displacement")
					case 'L':
						c.Check(mentionsNodeLine(info, a), "C06-R4", key, call.Pos(), "accumulated: "+exprStr(a),
							"the line displacement is advanced by `"+exprStr(a)+"`, which is not the line of the embedding YAML node")
					case 'C':
						// the indentation of an embedded document is only visible in
						// the source text: yaml.v3 records where the block indicator
						// is, not where the content starts
						readsText := false
						if so := own['S']; so != nil {
							ast.Inspect(a, func(m ast.Node) bool {
								if id, ok := m.(*ast.Ident); ok && info.Uses[id] == so {
									readsText = true
								}
								return true
							})
						}
						switch {
						case mentionsNodeLine(info, a) && !containsAnyCall(a):
							c.Bad("C06-R4", key, call.Pos(), "the column displacement is advanced by a node line (`"+exprStr(a)+"`)")
						case !readsText:
							c.Bad("C06-R4", key, call.Pos(), "the column displacement is advanced by `"+exprStr(a)+"`, which does not read the source lines: the indentation of an embedded document cannot be derived from YAML node columns (they locate the block indicator, not its content), so documents indented differently from the assumed amount get shifted columns")
						default:
							c.Ok("C06-R4", key, call.Pos(), "accumulated from the source text: "+exprStr(a))
						}
					}
				case r != 'S' && s.acc:
					c.Ok("C06-R4", key, call.Pos(), "accumulated: "+exprStr(a))
				default:
					c.Bad("C06-R4", key, call.Pos(), "the "+roleName[r]+" passed on is `"+exprStr(a)+"`, which neither forwards nor (together with the other two) accumulates the caller's own "+roleName[r]+": positions of everything below are displaced")
				}
			}
			return true
		})
	}
}

// ---------------------------------------------------------------- R5

// rangeUnit returns "byte" or "rune" for the index variable obj if it is the
// key of a range over a string / []byte / []rune within body.
func rangeUnit(info *types.Info, body ast.Node, obj types.Object) string {
	unit := ""
	ast.Inspect(body, func(n ast.Node) bool {
		rs, ok := n.(*ast.RangeStmt)
		if !ok || rs.Key == nil {
			return true
		}
		id, ok := rs.Key.(*ast.Ident)
		if !ok || info.Defs[id] != obj {
			return true
		}
		t := info.TypeOf(rs.X)
		if t == nil {
			return true
		}
		switch u := t.Underlying().(type) {
		case *types.Basic:
			if u.Info()&types.IsString != 0 {
				unit = "byte"
			}
		case *types.Slice:
			if b, ok := u.Elem().Underlying().(*types.Basic); ok {
				switch b.Kind() {
				case types.Uint8:
					unit = "byte"
				case types.Int32:
					unit = "rune"
				}
			}
		}
		return true
	})
	return unit
}

func c06Units(c *Ctx) {
	p := c.P
	qPR := "internal/diags.PositionRange"
	// writer: NewPositionRange -> appendPosition(_, _, column) where column mentions a range index
	w := c.MustFunc("C06-R5", "internal/diags.NewPositionRange")
	r := c.MustFunc("C06-R5", "internal/diags.InjectDiagnostics")
	if w == nil || r == nil {
		return
	}
	winfo := w.Pkg.TypesInfo
	wUnits := map[string]token.Pos{}
	ast.Inspect(w.Decl.Body, func(n ast.Node) bool {
		call, ok := n.(*ast.CallExpr)
		if !ok || !isCallTo(winfo, call, "internal/diags.appendPosition") || len(call.Args) != 3 {
			return true
		}
		ast.Inspect(call.Args[2], func(m ast.Node) bool {
			if id, ok := m.(*ast.Ident); ok {
				if o := winfo.Uses[id]; o != nil {
					if u := rangeUnit(winfo, w.Decl.Body, o); u != "" {
						wUnits[u] = call.Pos()
					}
				}
			}
			return true
		})
		return true
	})
	rinfo := r.Pkg.TypesInfo
	rUnits := map[string]token.Pos{}
	ast.Inspect(r.Decl.Body, func(n ast.Node) bool {
		b, ok := n.(*ast.BinaryExpr)
		if !ok {
			return true
		}
		switch b.Op {
		case token.LSS, token.LEQ, token.GTR, token.GEQ, token.EQL, token.NEQ:
		default:
			return true
		}
		isCol := func(e ast.Expr) bool {
			return fieldSel(rinfo, e, qPR, "FirstColumn") || fieldSel(rinfo, e, qPR, "LastColumn")
		}
		var other ast.Expr
		switch {
		case isCol(b.X):
			other = b.Y
		case isCol(b.Y):
			other = b.X
		default:
			return true
		}
		ast.Inspect(other, func(m ast.Node) bool {
			if id, ok := m.(*ast.Ident); ok {
				if o := rinfo.Uses[id]; o != nil {
					if u := rangeUnit(rinfo, r.Decl.Body, o); u != "" {
						rUnits[u] = b.Pos()
					}
				}
			}
			return true
		})
		return true
	})
	_ = p
	wu, ru := strings.Join(sortedKeys(wUnits), "+"), strings.Join(sortedKeys(rUnits), "+")
	c.Check(wu == "byte", "C06-R5", "NewPositionRange:columns counted in bytes", w.Decl.Pos(), "unit="+wu,
		"the columns recorded for a value are not byte offsets (unit `"+wu+"`), while diagnostics size their spans with len(value), which counts bytes")
	c.Check(ru == "byte", "C06-R5", "InjectDiagnostics:columns compared in bytes", r.Decl.Pos(), "unit="+ru,
		"the renderer compares position columns with an index counted in `"+ru+"`, while positions are recorded in bytes: carets drift on every line that has a multi-byte character before the span")
	c.Check(wu == ru && wu != "", "C06-R5", "writer and renderer agree on the unit", r.Decl.Pos(), wu, "writer counts `"+wu+"`, renderer counts `"+ru+"`")
}

// ---------------------------------------------------------------- R6

func c06Lines(c *Ctx, R string) {
	p := c.P
	fi := c.MustFunc(R, "internal/parser.parseRule")
	if fi == nil {
		return
	}
	info := fi.Pkg.TypesInfo
	qLR := "internal/diags.LineRange"
	qRule := "internal/parser.Rule"
	// the accumulator: the local of type LineRange
	var acc types.Object
	ast.Inspect(fi.Decl.Body, func(n ast.Node) bool {
		if vs, ok := n.(*ast.ValueSpec); ok && acc == nil {
			for _, id := range vs.Names {
				if o := info.Defs[id]; o != nil && typeQName(o.Type()) == qLR {
					acc = o
				}
			}
		}
		return true
	})
	if acc == nil {
		c.Undecided(R, "parseRule:line range accumulator", fi.Decl.Pos(), "no local of type diags.LineRange")
		return
	}
	isAccField := func(e ast.Expr, f string) bool {
		sel, ok := ast.Unparen(e).(*ast.SelectorExpr)
		if !ok || sel.Sel.Name != f {
			return false
		}
		id, ok := sel.X.(*ast.Ident)
		return ok && info.Uses[id] == acc
	}
	// the loop over the parts of the rule node
	var loop *ast.RangeStmt
	ast.Inspect(fi.Decl.Body, func(n ast.Node) bool {
		if rs, ok := n.(*ast.RangeStmt); ok && loop == nil {
			if call, ok := ast.Unparen(rs.X).(*ast.CallExpr); ok && isCallTo(info, call, "internal/parser.unpackNodes") {
				loop = rs
			}
		}
		return true
	})
	if loop == nil {
		c.Undecided(R, "parseRule:loop over parts", fi.Decl.Pos(), "no range over unpackNodes(node)")
		return
	}
	partObj := types.Object(nil)
	if id, ok := loop.Value.(*ast.Ident); ok {
		partObj = info.Defs[id]
	}
	mentionsPartLine := func(e ast.Expr) bool {
		found := false
		ast.Inspect(e, func(n ast.Node) bool {
			if sel, ok := n.(*ast.SelectorExpr); ok && sel.Sel.Name == "Line" {
				if id, ok := sel.X.(*ast.Ident); ok && info.Uses[id] == partObj {
					found = true
				}
			}
			return true
		})
		return found
	}
	// (a) direct children of the loop body, before any branching statement that
	// can leave the iteration, fold part.Line into First and Last
	foldFirst, foldLast := false, false
	for _, st := range loop.Body.List {
		stop := false
		switch s := st.(type) {
		case *ast.IfStmt:
			// if lines.First == 0 || part.Line+off < lines.First { lines.First = part.Line+off }
			if len(s.Body.List) == 1 && s.Else == nil {
				if as, ok := s.Body.List[0].(*ast.AssignStmt); ok && len(as.Lhs) == 1 && isAccField(as.Lhs[0], "First") && mentionsPartLine(as.Rhs[0]) {
					// lowered only: the condition compares the part's line with the accumulator
					lowers := false
					for _, a := range implied(s.Cond, nil, true) {
						_ = a
					}
					ast.Inspect(s.Cond, func(m ast.Node) bool {
						if be, ok := m.(*ast.BinaryExpr); ok && (be.Op == token.LSS || be.Op == token.GTR) {
							l, r := be.X, be.Y
							if be.Op == token.GTR {
								l, r = r, l
							}
							if mentionsPartLine(l) && isAccField(r, "First") {
								lowers = true
							}
						}
						return true
					})
					foldFirst = lowers
					continue
				}
			}
			stop = containsBranch(s)
		case *ast.AssignStmt:
			// monotone folds only: Last = max(Last, …), First = min(First, …)
			monotone := func(rhs ast.Expr, fn, field string) bool {
				call, ok := ast.Unparen(rhs).(*ast.CallExpr)
				if !ok || len(call.Args) != 2 {
					return false
				}
				id, ok := call.Fun.(*ast.Ident)
				if !ok || id.Name != fn {
					return false
				}
				return (isAccField(call.Args[0], field) && mentionsPartLine(call.Args[1])) || (isAccField(call.Args[1], field) && mentionsPartLine(call.Args[0]))
			}
			if len(s.Lhs) == 1 && isAccField(s.Lhs[0], "Last") && monotone(s.Rhs[0], "max", "Last") {
				foldLast = true
			}
			if len(s.Lhs) == 1 && isAccField(s.Lhs[0], "First") && monotone(s.Rhs[0], "min", "First") {
				foldFirst = true
			}
		default:
			stop = containsBranch(st)
		}
		if stop {
			break
		}
	}
	c.Check(foldFirst, R, "parseRule:First folds every part's line", loop.Pos(), "unconditional at the top of the loop",
		"the first line of the rule is not lowered (min / `<` guarded) to the line of every key and value before the iteration can be left: nodes merged in from an earlier anchor (`<<: *a`) come out of order, the range can end up reversed and LineRange.Expand panics")
	c.Check(foldLast, R, "parseRule:Last folds every part's line", loop.Pos(), "unconditional at the top of the loop",
		"the last line of the rule is not raised (max) to the line of every key and value before the iteration can be left: nodes merged in from an earlier anchor (`<<: *a`) come out of order, the range can end up reversed and LineRange.Expand panics")
	// (b) every position-bearing local assigned from a constructor is folded into Last right after
	ctors := map[string]bool{"internal/parser.newYamlNode": true, "internal/parser.newPromQLExpr": true, "internal/parser.newYamlMap": true}
	nParts := 0
	ast.Inspect(loop.Body, func(n ast.Node) bool {
		blk, ok := n.(*ast.CaseClause)
		if !ok {
			return true
		}
		for i, st := range blk.Body {
			as, ok := st.(*ast.AssignStmt)
			if !ok || len(as.Lhs) != 1 || len(as.Rhs) != 1 {
				continue
			}
			call, ok := ast.Unparen(as.Rhs[0]).(*ast.CallExpr)
			if !ok {
				continue
			}
			fn := Callee(info, call)
			if fn == nil || !ctors[funcQName(fn)] {
				continue
			}
			lid, ok := as.Lhs[0].(*ast.Ident)
			if !ok {
				continue
			}
			lobj := objOf(info, lid)
			if lobj == nil {
				continue
			}
			nParts++
			folded := false
			for _, later := range blk.Body[i+1:] {
				if containsBranch(later) {
					break
				}
				if as2, ok := later.(*ast.AssignStmt); ok && len(as2.Lhs) == 1 && isAccField(as2.Lhs[0], "Last") {
					// rhs mentions max(lines.Last, <lobj>….Lines().Last)
					m := false
					ast.Inspect(as2.Rhs[0], func(x ast.Node) bool {
						if id, ok := x.(*ast.Ident); ok && info.Uses[id] == lobj {
							m = true
						}
						return true
					})
					mAcc := false
					ast.Inspect(as2.Rhs[0], func(x ast.Node) bool {
						if e, ok := x.(ast.Expr); ok && isAccField(e, "Last") {
							mAcc = true
						}
						return true
					})
					if m && mAcc {
						folded = true
					}
				}
			}
			if !folded {
				// the case hands the field's last line to a local, and the statement after the switch
				// raises the accumulator with that local: one fold for all cases
				var carriers []types.Object
				for j, top := range loop.Body.List {
					sw, isSw := top.(*ast.SwitchStmt)
					if !isSw {
						continue
					}
					inside := false
					for _, cc := range sw.Body.List {
						if cc == ast.Stmt(blk) {
							inside = true
						}
					}
					if !inside {
						continue
					}
					for _, after := range loop.Body.List[j+1:] {
						if containsBranch(after) {
							break
						}
						if as3, ok := after.(*ast.AssignStmt); ok && len(as3.Lhs) == 1 && isAccField(as3.Lhs[0], "Last") {
							if call3, isCall := ast.Unparen(as3.Rhs[0]).(*ast.CallExpr); isCall && exprStr(call3.Fun) == "max" && len(call3.Args) == 2 {
								for k, a := range call3.Args {
									if isAccField(a, "Last") {
										if o := objOf(info, call3.Args[1-k]); o != nil {
											carriers = append(carriers, o)
										}
									}
								}
							}
						}
					}
				}
				for _, later := range blk.Body[i+1:] {
					if containsBranch(later) {
						break
					}
					as2, ok := later.(*ast.AssignStmt)
					if !ok || len(as2.Lhs) != len(as2.Rhs) {
						continue
					}
					for k, l := range as2.Lhs {
						for _, car := range carriers {
							if objOf(info, l) != car {
								continue
							}
							m := false
							ast.Inspect(as2.Rhs[k], func(x ast.Node) bool {
								if id, ok := x.(*ast.Ident); ok && info.Uses[id] == lobj {
									m = true
								}
								return true
							})
							if m && strings.HasSuffix(exprStr(as2.Rhs[k]), "Last") {
								folded = true
							}
						}
					}
				}
			}
			role := typeQName(lobj.Type())
			caseName := ""
			if len(blk.List) == 1 {
				if co := constObj(info, blk.List[0]); co != nil {
					caseName = co.Name()
				} else {
					caseName = exprStr(blk.List[0])
				}
			}
			c.Check(folded, R, "parseRule:case "+caseName+" folds the last line of its "+role, as.Pos(), "lines.Last raised",
				"the field built for this key can span several lines but its last line is not folded into the rule's line range: the range no longer encloses the field")
		}
		return true
	})
	c.Check(nParts >= 7, R, "parseRule:position-bearing fields found", loop.Pos(), itoa(nParts), "expected at least 7 fields built by newYamlNode/newPromQLExpr/newYamlMap, found "+itoa(nParts))
	// (c) every Rule literal in parseRule carries Lines from the accumulator (or
	// the range handed back by a validator that received it)
	nLit := 0
	for _, cl := range compositeLits(info, fi.Decl.Body, qRule) {
		nLit++
		l := litField(cl, "Lines")
		ok := false
		if id, isId := ast.Unparen(l).(*ast.Ident); l != nil && isId {
			o := info.Uses[id]
			ok = o == acc || (o != nil && typeQName(o.Type()) == qLR)
		}
		if !ok {
			c.Bad(R, "parseRule:Rule literal #"+itoa(nLit)+" carries the accumulated lines", cl.Pos(), "Lines is `"+exprStr(l)+"`")
		}
	}
	c.Check(nLit >= 10, R, "parseRule:Rule literals carry Lines", fi.Decl.Pos(), itoa(nLit)+" literals", "expected at least 10 Rule literals, found "+itoa(nLit))
	_ = p
}

// containsBranch reports whether a statement can leave the current iteration
// (return, continue, break, goto) — lexically, not descending into closures.
func containsBranch(n ast.Node) bool {
	found := false
	inspectNoLit(n, func(m ast.Node) bool {
		switch m.(type) {
		case *ast.ReturnStmt, *ast.BranchStmt:
			found = true
		}
		return true
	})
	return found
}

// c06WhitespaceIsContent: positions are byte-exact; inside block and quoted
// scalars spaces on an otherwise empty line belong to the value. The
// reconstruction therefore never looks at a trimmed form of a source line
// (strings.Trim*, strings.Fields): a line is "empty" only if its length is 0.
func c06WhitespaceIsContent(c *Ctx) {
	fi := c.MustFunc("C06-R7", "internal/diags.NewPositionRange")
	if fi == nil {
		return
	}
	info := fi.Pkg.TypesInfo
	linesP := paramObj(fi, 0)
	bad := ""
	ast.Inspect(fi.Decl.Body, func(n ast.Node) bool {
		call, ok := n.(*ast.CallExpr)
		if !ok {
			return true
		}
		fn := Callee(info, call)
		if fn == nil || fn.Pkg() == nil || fn.Pkg().Path() != "strings" || !(strings.HasPrefix(fn.Name(), "Trim") || strings.HasPrefix(fn.Name(), "Fields")) {
			return true
		}
		// only trimming of blanks matters (removing a trailing "\r" would be fine)
		blanks := fn.Name() == "TrimSpace" || strings.HasPrefix(fn.Name(), "Fields")
		if !blanks && len(call.Args) == 2 {
			if cut, isC := constString(info, call.Args[1]); !isC || strings.ContainsAny(cut, " \t") {
				blanks = true
			}
		}
		if !blanks {
			return true
		}
		for _, a := range call.Args {
			if mentionsObj(info, a, linesP) {
				bad = roleStr(info, call)
			}
		}
		return true
	})
	c.Check(bad == "", "C06-R7", "NewPositionRange:source lines are never trimmed", fi.Decl.Pos(), "whitespace is content",
		"`"+bad+"` looks at a trimmed source line: a whitespace-only line inside a block or quoted scalar carries characters of the value; treating it as empty desynchronises value and source, and every later position of the field is wrong")
}

// c06OnlyMatchedPositions: NewPositionRange hands out positions of two kinds
// only: those accumulated character by character by the scan (appendPosition),
// and the single-point fallback (first == last column) for values that cannot
// be located. A literal that spans a range computed from the value's length
// assumes the value is written verbatim in the source, which is false for
// quoted, escaped and folded scalars.
func c06OnlyMatchedPositions(c *Ctx) {
	fi := c.MustFunc("C06-R7", "internal/diags.NewPositionRange")
	if fi == nil {
		return
	}
	info := fi.Pkg.TypesInfo
	bad := ""
	n := 0
	for _, cl := range compositeLits(info, fi.Decl.Body, "internal/diags.PositionRange") {
		n++
		f, l := litField(cl, "FirstColumn"), litField(cl, "LastColumn")
		if f == nil || l == nil || exprStr(f) != exprStr(l) {
			bad = "FirstColumn: " + exprStr(f) + ", LastColumn: " + exprStr(l)
		}
	}
	c.Check(bad == "" && n >= 1, "C06-R7", "NewPositionRange:literal ranges are single-point fallbacks", fi.Decl.Pos(), itoa(n)+" literal(s), first == last",
		"NewPositionRange builds a range `"+bad+"` arithmetically instead of by matching characters: for a quoted or escaped scalar the source text is longer than the value, so the range is shifted and too short")
}

// c06LineTableIsDecoderText: positions are rebuilt by looking yaml's line and
// column up in a table of source lines. yaml counted those on the text the
// content reader handed it — after ignore comments blanked parts of it — so the
// table given to parseGroups / parseNode is the one the reader fills from its
// buffer once the line is final: no method that can still rewrite the buffer
// runs after the append in the same function. A second table that records the
// raw file ("what is really there") and is used for the look-up walks text the
// decoder never saw: the positions of a value with an excluded line in it no
// longer spell the value.
func c06LineTableIsDecoderText(c *Ctx, R string) {
	parse := c.MustFunc(R, "internal/parser.Parser.Parse")
	if parse == nil {
		return
	}
	info := parse.Pkg.TypesInfo
	fields := map[string]bool{}
	ast.Inspect(parse.Decl.Body, func(nd ast.Node) bool {
		call, ok := nd.(*ast.CallExpr)
		if !ok {
			return true
		}
		fn := Callee(info, call)
		if fn == nil {
			return true
		}
		if q := funcQName(fn); q != "internal/parser.parseGroups" && q != "internal/parser.Parser.parseNode" {
			return true
		}
		for _, a := range call.Args {
			if sel, isSel := ast.Unparen(a).(*ast.SelectorExpr); isSel && fieldOwner(info, sel) == "internal/parser.ContentReader" {
				fields[sel.Sel.Name] = true
			}
		}
		return true
	})
	if len(fields) == 0 {
		// a local copy etc.: C19-R2 speaks about that; nothing to decide here
		c.Ok(R, "Parse:line table is a field of the content reader", parse.Decl.Pos(), "not passed as a field")
		return
	}
	n := 0
	for _, fi := range c.P.AllFuncs() {
		if fi.Pkg != parse.Pkg || fi.Decl.Body == nil || c.P.IsTestFile(fi.Decl.Pos()) {
			continue
		}
		ast.Inspect(fi.Decl.Body, func(nd ast.Node) bool {
			as, ok := nd.(*ast.AssignStmt)
			if !ok || len(as.Lhs) != 1 || len(as.Rhs) != 1 {
				return true
			}
			sel, isSel := ast.Unparen(as.Lhs[0]).(*ast.SelectorExpr)
			if !isSel || fieldOwner(info, sel) != "internal/parser.ContentReader" || !fields[sel.Sel.Name] {
				return true
			}
			call, isCall := ast.Unparen(as.Rhs[0]).(*ast.CallExpr)
			if !isCall || exprStr(call.Fun) != "append" {
				return true
			}
			n++
			// anything after the append in this function that can still rewrite the buffer?
			late := ""
			ast.Inspect(fi.Decl.Body, func(m ast.Node) bool {
				switch x := m.(type) {
				case *ast.CallExpr:
					if x.Pos() <= as.End() {
						return true
					}
					if callee := c.P.FuncOf(Callee(info, x)); callee != nil && callee.Decl.Recv != nil && c06WritesBuf(c.P, callee, 0) {
						late = exprStr(x.Fun)
					}
				case *ast.AssignStmt:
					if x.Pos() <= as.End() {
						return true
					}
					for _, l := range x.Lhs {
						root := l
						if ix, isIx := l.(*ast.IndexExpr); isIx {
							root = ix.X
						}
						if fieldSel(info, root, "internal/parser.ContentReader", "buf") {
							late = exprStr(l)
						}
					}
				}
				return true
			})
			c.Check(late == "", R, strings.TrimPrefix(fi.Name, "internal/parser.")+":line table "+sel.Sel.Name+" is filled from the final text of the line", as.Pos(), "nothing rewrites the buffer after the append",
				"the table the positions are looked up in gets the line before `"+late+"` can still blank parts of it: it holds text the YAML decoder never saw, so the positions of a value that contains an excluded line (or follows one) do not spell the value")
			return true
		})
	}
	c.Check(n >= 1, R, "appends to the line table enumerated", token.NoPos, itoa(n), "nothing appends to the line table handed to the parsers")
}

// c06WritesBuf: the method (or something it calls on the same receiver type,
// two levels deep) stores into ContentReader.buf or its elements.
func c06WritesBuf(p *Prog, fi *FuncInfo, depth int) bool {
	if fi == nil || fi.Decl.Body == nil || depth > 2 {
		return false
	}
	info := fi.Pkg.TypesInfo
	found := false
	ast.Inspect(fi.Decl.Body, func(m ast.Node) bool {
		switch x := m.(type) {
		case *ast.AssignStmt:
			for _, l := range x.Lhs {
				root := l
				if ix, isIx := l.(*ast.IndexExpr); isIx {
					root = ix.X
				}
				if fieldSel(info, root, "internal/parser.ContentReader", "buf") {
					found = true
				}
			}
		case *ast.CallExpr:
			if callee := p.FuncOf(Callee(info, x)); callee != nil && callee != fi && callee.Decl.Recv != nil && callee.Pkg == fi.Pkg {
				if c06WritesBuf(p, callee, depth+1) {
					found = true
				}
			}
		}
		return true
	})
	return found
}

// c06RenderedTextIsFileText: the reporters draw carets under the file's own
// text: columns are byte offsets into the lines as they are on disk. The
// content read for rendering is handed to InjectDiagnostics (and to the plain
// line printer) as it was read — no tab expansion, trimming or re-encoding in
// between, or every caret after the rewritten spot is misplaced.
func c06RenderedTextIsFileText(c *Ctx, R string) {
	rep := c.P.Pkg("internal/reporter")
	if rep == nil {
		return
	}
	info := rep.TypesInfo
	n := 0
	for _, fi := range c.P.AllFuncs() {
		if fi.Pkg != rep || fi.Decl.Body == nil || c.P.IsTestFile(fi.Decl.Pos()) {
			continue
		}
		// variables that hold file content: assigned from readFile(...)
		content := map[types.Object]bool{}
		ast.Inspect(fi.Decl.Body, func(nd ast.Node) bool {
			if as, ok := nd.(*ast.AssignStmt); ok && len(as.Rhs) == 1 {
				if call, isCall := as.Rhs[0].(*ast.CallExpr); isCall && isCallTo(info, call, "internal/reporter.readFile") && len(as.Lhs) >= 1 {
					if o := objOf(info, as.Lhs[0]); o != nil {
						content[o] = true
					}
				}
			}
			return true
		})
		if len(content) == 0 {
			continue
		}
		seq := 0
		ast.Inspect(fi.Decl.Body, func(nd ast.Node) bool {
			as, ok := nd.(*ast.AssignStmt)
			if !ok {
				return true
			}
			for i, l := range as.Lhs {
				o := objOf(info, l)
				if o == nil || !content[o] || i >= len(as.Rhs) && len(as.Rhs) != 1 {
					continue
				}
				r := as.Rhs[0]
				if i < len(as.Rhs) {
					r = as.Rhs[i]
				}
				n++
				seq++
				okStore := false
				switch x := ast.Unparen(r).(type) {
				case *ast.CallExpr:
					okStore = isCallTo(info, x, "internal/reporter.readFile")
				case *ast.BasicLit:
					okStore = true // reset to ""
				case *ast.Ident:
					okStore = true
				}
				c.Check(okStore, R, strings.TrimPrefix(fi.Name, "internal/reporter.")+":file content is rendered as read#"+itoa(seq), as.Pos(), "readFile result or reset",
					"the text the diagnostics are drawn on is rewritten (`"+exprStr(r)+"`) after it was read: columns are byte offsets into the file's own lines, so every caret behind the rewritten spot points at the wrong characters")
			}
			return true
		})
	}
	c.Check(n >= 3, R, "stores to file-content variables in internal/reporter enumerated", token.NoPos, itoa(n), "fewer than 3")
}

// c06ContinuationIndent: a continuation line of a multi-line value is indented
// at least ONE column deeper than its key (YAML's rule for a block mapping
// value), so the column the position look-up starts reading such a line at is
// at most `key.Column + 1`. A larger offset cuts off the first character of a
// line indented by the minimum, and the look-up then goes hunting for it in
// the lines — and rules — below (found F44).
func c06ContinuationIndent(c *Ctx, R string) {
	n := 0
	for _, name := range []string{"internal/parser.parseRule", "internal/parser.newYamlMap"} {
		fi := c.MustFunc(R, name)
		if fi == nil {
			continue
		}
		info := fi.Pkg.TypesInfo
		seq := 0
		ast.Inspect(fi.Decl.Body, func(nd ast.Node) bool {
			call, ok := nd.(*ast.CallExpr)
			if !ok {
				return true
			}
			fn := Callee(info, call)
			if fn == nil {
				return true
			}
			q := funcQName(fn)
			if q != "internal/parser.newYamlNode" && q != "internal/parser.newPromQLExpr" {
				return true
			}
			sig := fn.Type().(*types.Signature)
			mi := -1
			for i := 0; i < sig.Params().Len(); i++ {
				if sig.Params().At(i).Name() == "minColumn" {
					mi = i
				}
			}
			if mi < 0 {
				mi = sig.Params().Len() - 1 // the last int parameter
			}
			if mi >= len(call.Args) {
				return true
			}
			arg := ast.Unparen(call.Args[mi])
			if id, isID := arg.(*ast.Ident); isID {
				if d := singleDef(info, fi.Decl.Body, id); d != nil {
					arg = ast.Unparen(d)
				}
			}
			// a node whose own column is the base of another call's minimum column is a KEY node
			if len(call.Args) > 0 {
				if no := objOf(info, call.Args[0]); no != nil {
					isKeyNode := false
					ast.Inspect(fi.Decl.Body, func(m ast.Node) bool {
						if sel, isSel := m.(*ast.SelectorExpr); isSel && sel.Sel.Name == "Column" && objOf(info, sel.X) == no {
							isKeyNode = true
						}
						return true
					})
					if isKeyNode {
						return true
					}
				}
			}
			// map keys are single tokens on one line: their minimum column is never used
			isKey := false
			ast.Inspect(fi.Decl.Body, func(m ast.Node) bool {
				if kv, isKV := m.(*ast.KeyValueExpr); isKV && ast.Unparen(kv.Value) == ast.Expr(call) {
					if id, isID := kv.Key.(*ast.Ident); isID && id.Name == "Key" {
						isKey = true
					}
				}
				return true
			})
			if isKey {
				return true
			}
			n++
			seq++
			ok2, got := false, exprStr(arg)
			if k, isC := constInt(info, arg); isC && k <= 1 {
				ok2 = true
			}
			switch x := arg.(type) {
			case *ast.BinaryExpr:
				if x.Op == token.ADD {
					for _, pr := range [][2]ast.Expr{{x.X, x.Y}, {x.Y, x.X}} {
						if sel, isSel := ast.Unparen(pr[0]).(*ast.SelectorExpr); isSel && sel.Sel.Name == "Column" {
							if k, isC := constInt(info, pr[1]); isC && k <= 1 {
								ok2 = true
							}
						}
					}
				}
			case *ast.SelectorExpr:
				ok2 = x.Sel.Name == "Column"
			}
			c.Check(ok2, R, shortFuncName(name)+":continuation lines are read from at most one column past the key#"+itoa(seq), call.Pos(), got,
				"the position look-up of this value starts reading continuation lines at `"+got+"`: a line indented by the minimum YAML allows (one column deeper than the key) loses its first character, the look-up continues in the lines below, and the problem is reported with the line range and carets of other rules")
			return true
		})
	}
	c.Check(n >= 6, R, "position constructors with a minimum column enumerated", token.NoPos, itoa(n), "fewer than 6 calls")
}

// c06ParsersKeepNoState: a parsed tree carries offsets into the text it was parsed from; every consumer
// slices and measures THAT text with them. The parsing packages therefore keep nothing between calls: no
// package-level variable of internal/parser or internal/parser/utils is written, filled or handed out by
// address from a function (a memo of parsed queries keyed by anything but the exact text gives one rule the
// offsets of another rule's text: carets in the wrong place, or a slice out of range).
func c06ParsersKeepNoState(c *Ctx, R string) {
	n, bad := 0, ""
	for _, rel := range []string{"internal/parser", "internal/parser/utils"} {
		pkg := c.P.Pkg(rel)
		if pkg == nil {
			c.Undecided(R, "anchor:"+rel, token.NoPos, "package not found")
			continue
		}
		info := pkg.TypesInfo
		isPkgVar := func(e ast.Expr) *types.Var {
			root, _, ok := accessPath(info, e)
			if !ok || root == nil {
				if o := objOf(info, e); o != nil {
					root = o
				}
			}
			v, isVar := root.(*types.Var)
			if !isVar || v.IsField() || v.Pkg() == nil || v.Parent() != v.Pkg().Scope() || v.Pkg() != pkg.Types {
				return nil
			}
			return v
		}
		for _, f := range pkg.Syntax {
			if c.P.IsTestFile(f.Pos()) {
				continue
			}
			for _, d := range f.Decls {
				fd, ok := d.(*ast.FuncDecl)
				if !ok || fd.Body == nil || (fd.Recv == nil && fd.Name.Name == "init") {
					continue
				}
				n++
				ast.Inspect(fd.Body, func(nd ast.Node) bool {
					switch x := nd.(type) {
					case *ast.AssignStmt:
						for _, l := range x.Lhs {
							if v := isPkgVar(l); v != nil {
								bad = v.Name() + " is written at " + c.P.Pos(l.Pos())
							}
						}
					case *ast.IncDecStmt:
						if v := isPkgVar(x.X); v != nil {
							bad = v.Name() + " is written at " + c.P.Pos(x.Pos())
						}
					case *ast.UnaryExpr:
						if x.Op == token.AND {
							if v := isPkgVar(x.X); v != nil {
								bad = "the address of " + v.Name() + " is taken at " + c.P.Pos(x.Pos())
							}
						}
					case *ast.CallExpr:
						// a method with a pointer receiver called on a package-level variable (sync.Map.Store, …)
						if sel, ok := x.Fun.(*ast.SelectorExpr); ok {
							if v := isPkgVar(sel.X); v != nil {
								if fn, isFn := info.Uses[sel.Sel].(*types.Func); isFn {
									if sig, _ := fn.Type().(*types.Signature); sig != nil && sig.Recv() != nil {
										if _, isPtr := sig.Recv().Type().(*types.Pointer); isPtr {
											if _, varIsPtr := v.Type().Underlying().(*types.Pointer); !varIsPtr || true {
												switch fn.Name() {
												case "Load", "Range", "Len", "String", "MatchString", "FindStringSubmatch", "FindAllStringSubmatch", "FindStringIndex", "FindAllStringIndex", "Match", "NumSubexp", "SubexpNames", "ReplaceAllString", "FindString":
												default:
													bad = v.Name() + "." + fn.Name() + " is called at " + c.P.Pos(x.Pos())
												}
											}
										}
									}
								}
							}
						}
						// append / delete / clear / copy on a package-level variable
						if id, ok := x.Fun.(*ast.Ident); ok && len(x.Args) > 0 {
							if _, isB := info.Uses[id].(*types.Builtin); isB && (id.Name == "delete" || id.Name == "clear" || id.Name == "copy") {
								if v := isPkgVar(x.Args[0]); v != nil {
									bad = v.Name() + " is changed by " + id.Name + " at " + c.P.Pos(x.Pos())
								}
							}
						}
					}
					return true
				})
			}
		}
	}
	c.Check(bad == "" && n >= 40, R, "parsing packages keep no state between calls", token.NoPos, itoa(n)+" functions, no package-level variable written",
		"package-level state in the parsing packages: "+bad+" — a tree (or position) produced for one text can be handed to a rule with another text, whose offsets then point at the wrong characters or beyond the end")
}
