// pintsa decides structural necessary conditions of the pint properties
// C01..C20 from the source in the working tree. It never runs pint.
package main

import (
	"encoding/json"
	"flag"
	"fmt"
	"go/token"
	"os"
	"path/filepath"
	"runtime/debug"
	"sort"
	"strconv"
	"strings"
	"time"
)

// Status of one obligation.
type Status string

const (
	OK        Status = "ok"
	Violation Status = "violation"
	Undecided Status = "undecided"
)

// Obligation is one instance of one rule.
type Obligation struct {
	Rule   string `json:"rule"`
	Key    string `json:"key"` // construct identity, never a line number
	Pos    string `json:"pos"`
	Status Status `json:"status"`
	Detail string `json:"detail,omitempty"`
	Known  bool   `json:"known_finding,omitempty"`
}

// RuleInfo documents one rule for the evidence file.
type RuleInfo struct {
	ID    string `json:"id"`
	Doc   string `json:"doc"`
	Floor int    `json:"floor"`
	Count int    `json:"count"`
}

// Ctx collects obligations for one property run.
type Ctx struct {
	P     *Prog
	Prop  string
	Tier  string
	Obs   []Obligation
	Rules map[string]*RuleInfo
	order []string
	Notes []string
	seen  map[string]int
}

// Rule declares a rule with a floor on its instance count.
func (c *Ctx) Rule(id, doc string, floor int) {
	if _, ok := c.Rules[id]; ok {
		return
	}
	c.Rules[id] = &RuleInfo{ID: id, Doc: doc, Floor: floor}
	c.order = append(c.order, id)
}

func (c *Ctx) add(rule, key string, pos token.Pos, st Status, detail string) {
	if _, ok := c.Rules[rule]; !ok {
		panic("undeclared rule " + rule)
	}
	c.Rules[rule].Count++
	if c.seen == nil {
		c.seen = map[string]int{}
	}
	c.seen[rule+"|"+key]++
	if n := c.seen[rule+"|"+key]; n > 1 {
		key = fmt.Sprintf("%s#%d", key, n)
	}
	c.Obs = append(c.Obs, Obligation{Rule: rule, Key: key, Pos: c.P.Pos(pos), Status: st, Detail: detail})
}

// Ok records a discharged obligation.
func (c *Ctx) Ok(rule, key string, pos token.Pos, detail string) {
	c.add(rule, key, pos, OK, detail)
}

// Bad records a violated obligation.
func (c *Ctx) Bad(rule, key string, pos token.Pos, detail string) {
	c.add(rule, key, pos, Violation, detail)
}

// Check records ok or violation depending on cond.
func (c *Ctx) Check(cond bool, rule, key string, pos token.Pos, okDetail, badDetail string) bool {
	if cond {
		c.Ok(rule, key, pos, okDetail)
	} else {
		c.Bad(rule, key, pos, badDetail)
	}
	return cond
}

// Undecided records an anchor or idiom the rule could not interpret.
func (c *Ctx) Undecided(rule, key string, pos token.Pos, detail string) {
	c.add(rule, key, pos, Undecided, detail)
}

// Note adds an informational remark to the evidence.
func (c *Ctx) Note(format string, a ...any) { c.Notes = append(c.Notes, fmt.Sprintf(format, a...)) }

// MustFunc resolves an anchor function or records UNDECIDED.
func (c *Ctx) MustFunc(rule, name string) *FuncInfo {
	fi := c.P.Func(name)
	if fi == nil {
		c.Undecided(rule, "anchor:"+name, token.NoPos, "anchor function not found")
	}
	return fi
}

// Finding is an entry of known_findings.json.
type Finding struct {
	Property string `json:"property"`
	Rule     string `json:"rule"`
	Key      string `json:"key"`
	Status   string `json:"status"` // known | fixed
	Commit   string `json:"commit,omitempty"`
	What     string `json:"what"`
	Repro    string `json:"repro,omitempty"`
}

type propSpec struct {
	id   string
	run  func(*Ctx)
	expl string
	not  string
	// mutants self-tests: name -> description handled in mutants.go
}

var props = map[string]*propSpec{}

func register(id string, run func(*Ctx), explanation, notDecided string) {
	props[id] = &propSpec{id: id, run: run, expl: explanation, not: notDecided}
}

func main() {
	prop := flag.String("prop", "", "property id (C01..C20)")
	tier := flag.String("tier", "quick", "quick|thorough")
	repo := flag.String("repo", "/repo", "repository root")
	out := flag.String("out", "", "evidence file")
	known := flag.String("known", "", "known findings file")
	replayDir := flag.String("replay-dir", "", "directory for replay records")
	tags := flag.String("tags", "", "build tags")
	tests := flag.Bool("tests", false, "load test variants too")
	overlayFile := flag.String("overlay", "", "JSON file {path: content} applied as in-memory overlay (self-tests only)")
	child := flag.Bool("child", false, "internal: print obligations as JSON, no evidence")
	list := flag.Bool("list", false, "list properties")
	dumpFuncs := flag.Bool("dump-funcs", false, "print the qualified names of all module functions (baseline for helper inlining)")
	flag.Parse()
	if *dumpFuncs {
		os.Setenv("PINTSA_NO_INLINE", "1")
		p, err := LoadProg(*repo, false, "", nil)
		if err != nil {
			fmt.Fprintln(os.Stderr, err)
			os.Exit(2)
		}
		var names []string
		for _, fi := range p.AllFuncs() {
			names = append(names, fi.Name)
		}
		sort.Strings(names)
		fmt.Println(strings.Join(names, "\n"))
		return
	}
	if *list {
		ids := []string{}
		for id := range props {
			ids = append(ids, id)
		}
		sort.Strings(ids)
		fmt.Println(strings.Join(ids, " "))
		return
	}
	if t := os.Getenv("VERIF_TIER"); t != "" && !flagSet("tier") {
		*tier = t
	}
	seed := 0
	if s := os.Getenv("VERIF_SEED"); s != "" {
		seed, _ = strconv.Atoi(s)
	}
	spec := props[*prop]
	if spec == nil {
		fmt.Fprintf(os.Stderr, "unknown property %q\n", *prop)
		os.Exit(2)
	}
	start := time.Now()
	var overlay map[string][]byte
	if *overlayFile != "" {
		raw, err := os.ReadFile(*overlayFile)
		if err != nil {
			fatal(err)
		}
		m := map[string]string{}
		if err := json.Unmarshal(raw, &m); err != nil {
			fatal(err)
		}
		overlay = map[string][]byte{}
		for k, v := range m {
			overlay[k] = []byte(v)
		}
	}

	configs := []loadCfg{{tests: *tests, tags: *tags}}
	if *tier == "thorough" && !*child {
		configs = []loadCfg{{false, ""}, {false, "stringlabels"}}
	}
	var all []Obligation
	var rules map[string]*RuleInfo
	var order []string
	var notes []string
	var loadDesc []string
	for i, lc := range configs {
		ctx, err := runOnce(spec, *repo, *tier, lc, overlay)
		if err != nil {
			fatal(err)
		}
		loadDesc = append(loadDesc, fmt.Sprintf("tests=%v tags=%q: %d module packages, %d functions, %d obligations", lc.tests, lc.tags, len(ctx.P.Roots), len(ctx.P.byObj), len(ctx.Obs)))
		if i == 0 {
			all, rules, order, notes = ctx.Obs, ctx.Rules, ctx.order, ctx.Notes
			continue
		}
		// Extra configurations: only non-ok obligations not already present.
		seen := map[string]bool{}
		for _, o := range all {
			seen[o.Rule+"|"+o.Key+"|"+string(o.Status)] = true
		}
		for _, o := range ctx.Obs {
			if o.Status != OK && !seen[o.Rule+"|"+o.Key+"|"+string(o.Status)] {
				o.Detail += fmt.Sprintf(" [load config tests=%v tags=%q]", lc.tests, lc.tags)
				all = append(all, o)
			}
		}
		for id, r := range ctx.Rules {
			if r.Count < r.Floor {
				all = append(all, Obligation{Rule: id, Key: "floor", Pos: "-", Status: Undecided,
					Detail: fmt.Sprintf("INSTANCES<floor under tests=%v tags=%q: %d < %d", lc.tests, lc.tags, r.Count, r.Floor)})
			}
		}
	}
	for _, id := range order {
		r := rules[id]
		if r.Count < r.Floor {
			all = append(all, Obligation{Rule: id, Key: "floor", Pos: "-", Status: Undecided,
				Detail: fmt.Sprintf("INSTANCES<floor: %d < %d (rule matched fewer constructs than confirmed by hand)", r.Count, r.Floor)})
		}
	}
	if *child {
		enc := json.NewEncoder(os.Stdout)
		enc.Encode(all)
		return
	}

	// Self tests (thorough tier): overlay mutants that must be reported.
	var selfTests []SelfTestResult
	if *tier == "thorough" {
		selfTests = runSelfTests(spec.id, *repo)
	}

	// Known findings.
	var findings []Finding
	if *known != "" {
		if raw, err := os.ReadFile(*known); err == nil {
			if err := json.Unmarshal(raw, &findings); err != nil {
				fatal(fmt.Errorf("known findings: %w", err))
			}
		}
	}
	isKnown := func(o Obligation) *Finding {
		for i := range findings {
			f := &findings[i]
			if f.Status == "known" && f.Property == spec.id && f.Rule == o.Rule && f.Key == o.Key {
				return f
			}
		}
		return nil
	}
	nviol, nund, nknown, nok := 0, 0, 0, 0
	var replayPath string
	var bad []Obligation
	for i := range all {
		o := &all[i]
		switch o.Status {
		case OK:
			nok++
		case Violation:
			if f := isKnown(*o); f != nil {
				o.Known = true
				nknown++
				fmt.Printf("KNOWN-FINDING: property=%s %s %s at %s: %s\n", spec.id, o.Rule, o.Key, o.Pos, f.What)
			} else {
				nviol++
				bad = append(bad, *o)
			}
		case Undecided:
			nund++
			bad = append(bad, *o)
		}
	}
	for _, st := range selfTests {
		if st.Status == "missed" {
			nund++
			bad = append(bad, Obligation{Rule: "SELFTEST", Key: st.Name, Pos: "-", Status: Undecided,
				Detail: "checker self-test: seeded break was not reported: " + st.Detail})
		}
	}
	if len(bad) > 0 {
		dir := *replayDir
		if dir == "" {
			dir = filepath.Join(filepath.Dir(*out), "..", "replay")
		}
		os.MkdirAll(dir, 0o755)
		replayPath = filepath.Join(dir, spec.id+".json")
		raw, _ := json.MarshalIndent(map[string]any{
			"property": spec.id, "tier": *tier, "reports": bad,
			"how_to_replay": fmt.Sprintf("./run.sh %s %s   # re-runs the rules on /repo's working tree; each report names rule, construct key and position", spec.id, *tier),
		}, "", " ")
		os.WriteFile(replayPath, raw, 0o644)
		for _, o := range bad {
			fmt.Printf("  report[%s] %s %s at %s: %s\n", string(o.Status), o.Rule, o.Key, o.Pos, o.Detail)
		}
	}

	// Evidence.
	distinct := map[string]bool{}
	for _, o := range all {
		distinct[o.Rule+"|"+o.Key] = true
	}
	var samples []Obligation
	perRule := map[string]int{}
	for _, o := range all {
		if o.Status != OK || perRule[o.Rule] < 3 {
			samples = append(samples, o)
			perRule[o.Rule]++
		}
	}
	var ruleList []*RuleInfo
	for _, id := range order {
		ruleList = append(ruleList, rules[id])
	}
	ev := map[string]any{
		"property_id": spec.id,
		"tier":        *tier,
		"seed":        seed,
		"level":       "other",
		"coverage": map[string]any{
			"explanation":         spec.expl + " NOT DECIDED: " + spec.not,
			"obligations":         len(all),
			"discharged":          nok,
			"known_findings":      nknown,
			"evaluations":         len(all),
			"distinct_nontrivial": len(distinct),
			"rule":                "one obligation per (rule, construct) found in the type-checked working tree; distinct = distinct (rule, construct key) pairs; every one is non-trivial in that a source edit of that construct can flip it",
			"rules":               ruleList,
			"samples":             samples,
			"all_obligation_keys": keysOf(all),
			"load":                loadDesc,
			"self_tests":          selfTests,
			"notes":               notes,
			"exhaustive":          true,
		},
		"assumptions": []string{
			"go/packages + go/types resolve the program exactly as the go build does for the default build configuration (thorough: also Tests=true and -tags stringlabels)",
			"the rule tables in /verif/sa (reference rows taken from the docs and the vendored Prometheus module) are themselves correct",
			"only the structural clause named in the explanation is decided, not the behavioural statement as a whole",
		},
		"wall_s":     time.Since(start).Seconds(),
		"violations": nviol + nund,
	}
	if *out != "" {
		os.MkdirAll(filepath.Dir(*out), 0o755)
		raw, _ := json.MarshalIndent(ev, "", " ")
		if err := os.WriteFile(*out, raw, 0o644); err != nil {
			fatal(err)
		}
	}
	fmt.Printf("%s %s: %d obligations, %d ok, %d known findings, %d violations, %d undecided (%.1fs)\n",
		spec.id, *tier, len(all), nok, nknown, nviol, nund, time.Since(start).Seconds())
	for _, id := range order {
		r := rules[id]
		fmt.Printf("  %-8s %3d instances (floor %d)  %s\n", r.ID, r.Count, r.Floor, r.Doc)
	}
	for _, st := range selfTests {
		fmt.Printf("  selftest %-40s %s\n", st.Name, st.Status)
	}
	if nviol+nund > 0 {
		fmt.Printf("VIOLATION property=%s replay=%s\n", spec.id, replayPath)
		os.Exit(1)
	}
}

type loadCfg struct {
	tests bool
	tags  string
}

func runOnce(spec *propSpec, repo, tier string, lc loadCfg, overlay map[string][]byte) (ctx *Ctx, err error) {
	p, err := LoadProg(repo, lc.tests, lc.tags, overlay)
	if err != nil {
		return nil, err
	}
	ctx = &Ctx{P: p, Prop: spec.id, Tier: tier, Rules: map[string]*RuleInfo{}}
	defer func() {
		if r := recover(); r != nil {
			ctx.Rule("ENGINE", "the analysis itself must complete", 0)
			ctx.Undecided("ENGINE", "analysis-panic", token.NoPos, fmt.Sprintf("%v | %s", r, strings.ReplaceAll(string(debug.Stack()), "\n", " ; ")))
		}
	}()
	spec.run(ctx)
	return ctx, nil
}

func keysOf(obs []Obligation) []string {
	out := make([]string, 0, len(obs))
	for _, o := range obs {
		out = append(out, o.Rule+" "+o.Key+" ["+string(o.Status)+"]")
	}
	return out
}

func flagSet(name string) bool {
	set := false
	flag.Visit(func(f *flag.Flag) {
		if f.Name == name {
			set = true
		}
	})
	return set
}

func fatal(err error) {
	fmt.Fprintln(os.Stderr, "pintsa: fatal:", err)
	os.Exit(2)
}
